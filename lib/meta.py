"""static texts for the evidence files"""
COMMON_ASSUMPTIONS = [
    "TLC 1.8.0 and the CommunityModules Json/IOUtils are correct",
    "the harness records faithfully what the API returned (it contains no expected values)",
    "bounded exhaustiveness: beyond the stated bounds the evidence is sampling",
    "policies answer None or a strictly larger size; Ok(0) from the source means end of input",
]
ASSUMPTIONS = {}
BOUNDS = {}
