"""Per-property pipelines: which suites are driven on the real code, which TLC jobs run.
A suite is pure enumeration/seeded randomness; every verdict is a MISMATCH line printed by TLC
from a TLA+ definition (props/why fields), filtered here by property id only."""
import json
import os
import time

import vlib
from vlib import log

FA = [10, 13, 62, 65, 32]          # LF CR '>' 'A' ' '
FQ = [10, 13, 64, 43, 65]          # LF CR '@' '+' 'A'
NEXT = {"ops": [], "tail": {"o": "next"}}
ITER = {"ops": [], "tail": {"o": "iter"}}
INTO = {"ops": [], "tail": {"o": "iter"}, "into": True}
SET0 = {"ops": [], "tail": {"o": "set", "s": 0}}


def EXACT(n):
    return {"ops": [], "tail": {"o": "exact", "s": 0, "n": n}}


def suite(fmt, inputs, caps, hist, **kw):
    s = {"fmt": fmt, "inputs": inputs, "caps": caps, "hist": hist}
    s.update(kw)
    return s


def enum(alpha, maxlen, minlen=0):
    return {"enum": {"alpha": alpha, "max": maxlen, "min": minlen}}


def rnd(n, **kw):
    d = {"n": n, "kind": "struct"}
    d.update(kw)
    return {"rand": d}


# ------------------------------------------------------------------------------------------

def split_shard(path, limit=40 << 20):
    """TLC loads a whole shard into memory: split big shards at the start of a run (of a pair group)"""
    if not os.path.exists(path) or os.path.getsize(path) <= limit:
        return [path]
    parts = []
    out = None
    size = 0
    with open(path) as f:
        for line in f:
            if (out is None or size > limit) and line.startswith('{"ev":"reset"') and '"first":true' in line:
                if out:
                    out.close()
                pp = "%s.part%d.ndjson" % (path[:-7], len(parts))
                parts.append(pp)
                out = open(pp, "w")
                size = 0
            out.write(line)
            size += len(line)
    if out:
        out.close()
    os.remove(path)
    return parts


class ReaderJob:
    """drive suites on the real readers, validate the traces against ReaderA (TraceReader.tla)"""

    def __init__(self, name, suites, snap=False):
        self.name = name
        self.suites = suites  # list of (label, suite dict, shards)
        self.snap = snap

    def run(self, wd):
        t0 = time.time()
        shards = []
        stats = {"cases": 0, "events": 0, "recs": 0, "panics": 0}
        samples = []
        for i, (label, s, nsh) in enumerate(self.suites):
            sp = os.path.join(wd, "%s_%d.suite.json" % (self.name, i))
            json.dump(s, open(sp, "w"))
            prefix = os.path.join(wd, "%s_%d" % (self.name, i))
            args = ["reader", "--suite", sp, "--out", prefix, "--shards", str(nsh), "--seed", str(vlib.seed())]
            if self.snap:
                args.append("--snap")
            st = vlib.run_harness(args)
            if st.get("hang"):
                # the harness watchdog fired: the code under test hangs without touching the source
                return {"name": self.name, "kind": "tv", "hang": True, "label": label, "mismatches": [
                    {"props": ["C06"], "why": ["hang_watchdog"], "kind": "hang", "suite": label, "case": None, "fmt": s["fmt"]}],
                    "states": 0, "transitions": 0, "traces": 0, "samples": [], "events": 0, "wall": time.time() - t0}
            for k in stats:
                stats[k] += st.get(k, 0)
            log("[drive] %s/%s: %s" % (self.name, label, st))
            for j in range(nsh):
                shards.extend(split_shard(prefix + ".%d.ndjson" % j))
            # a sample case of this suite, as recorded
            try:
                with open(shards[-1] if not os.path.exists(prefix + ".0.ndjson") else prefix + ".0.ndjson") as f:
                    first = f.readline()
                    second = f.readline()
                r = json.loads(first)
                samples.append({"suite": label, "case": json.loads(r["case"]), "first_event": json.loads(second) if second else None})
            except Exception:
                pass
        tv = vlib.trace_validate("TraceReader", shards, wd)
        recs = []
        for m in tv["mismatches"]:
            try:
                c, reset = vlib.case_of(m)
            except Exception:
                c, reset = None, {}
            ex = m.get("extra", {}) or {}
            recs.append({
                "props": m["props"], "why": m["why"], "kind": m["kind"], "fmt": reset.get("fmt"),
                "op": ex.get("op"), "res_kind": (ex.get("res") or {}).get("k"), "case": c,
                "trace_line": m["line"], "extra": ex, "job": self.name,
            })
        return {"name": self.name, "kind": "tv", "mismatches": recs, "states": tv["states"], "transitions": tv["states"],
                "traces": stats["cases"], "events": stats["events"], "samples": samples[:3], "wall": time.time() - t0,
                "panics": stats["panics"]}


class McJob:
    """TLC model checking of a spec; a violated invariant is reported for the listed properties
    (after reproduction on the real code where the job provides a replay)"""

    def __init__(self, name, spec, cfg, props, workers=12, timeout=1800, xmx="8g", inv_props=None, exhaustive=True, coverage=True):
        self.name, self.spec, self.cfg, self.props = name, spec, cfg, props
        self.workers, self.timeout, self.xmx = workers, timeout, xmx
        self.inv_props = inv_props or {}
        self.exhaustive = exhaustive
        self.coverage = coverage

    def run(self, wd):
        r = vlib.model_check(self.spec, self.cfg, wd, self.workers, self.timeout, self.xmx, coverage=self.coverage)
        mism = []
        if r["violated"]:
            props = self.inv_props.get(r["violated"], self.props)
            mism.append({"props": props, "why": ["model:" + str(r["violated"])], "kind": "mc", "case": {"tlc_output": r["out"]},
                         "fmt": None, "job": self.name})
        cov = sorted(r["coverage"].items())
        zero = [a for a, n in cov if n == 0]
        return {"name": self.name, "kind": "mc", "mismatches": mism, "states": r["distinct"], "transitions": r["states"],
                "traces": 0, "samples": [{"model": self.spec, "config": self.cfg, "action_coverage": dict(cov[:40])}],
                "wall": r["wall"], "zero_actions": zero, "exhaustive": self.exhaustive}


# ------------------------------------------------------------------------------------------
# suites (sizes: quick / thorough)

def q(tier, a, b):
    return a if tier == "quick" else b


def plain_suites(fmt, tier, flags=None, extra_hists=True):
    """record-by-record reading of all small inputs and random structured files"""
    alpha = FA if fmt == "fasta" else FQ
    L = q(tier, 6, 7) if fmt == "fasta" else q(tier, 7, 8)
    fl = flags or {}
    hs = [NEXT]
    caps1 = q(tier, [3, 4, 5, 7, 64], [3, 4, 5, 6, 7, 8, 9, 64]) if fmt == "fasta" else q(tier, [3, 5, 64], [3, 4, 5, 7, 9, 64])
    out = [
        ("enum%d-next" % L, suite(fmt, enum(alpha, L), caps1, {"fixed": hs}, chunks=[[0]], slots=1, extra=1, flags=fl), 8),
        ("enum%d-chunked" % (L - 1), suite(fmt, enum(alpha, L - 1), q(tier, [3, 5], [3, 4, 5, 8]), {"fixed": hs}, chunks=[[1], [2, 1]], intr=[0, 3], slots=1, extra=1, flags=fl,
                                           sample=(0 if fmt == "fasta" else q(tier, 3, 0))), 4),
    ]
    if extra_hists:
        out.append(("enum%d-iter-into" % (L - 1), suite(fmt, enum(alpha, L - 1), [3, 4, 6, 64], {"fixed": [ITER, INTO]}, chunks=[[0]], slots=1, extra=1, flags=fl,
                                                        sample=(0 if fmt == "fasta" else q(tier, 3, 0))), 4))
    out.append(("rand-struct", suite(fmt, rnd(q(tier, 1500, 20000), maxrec=4, maxfield=5, damage=35, anybyte=True), {"abs": [3, 4, 7, 16, 64], "rel": [-1, 0, 1]},
                                     {"fixed": hs}, chunks=[[0], [1], [3]], conf_sample=q(tier, 6, 12), slots=1, extra=2, flags=fl), 4))
    out.append(("rand-bytes", suite(fmt, {"rand": {"n": q(tier, 1500, 20000), "kind": "bytes", "maxlen": 24, "alpha": alpha + [59, 0, 255]}}, [3, 4, 5, 8, 64],
                                    {"fixed": hs}, chunks=[[0], [2]], conf_sample=4, slots=1, extra=2, flags=fl), 4))
    return out


def history_suites(fmt, tier, flags=None, seeks=True, pols=False, serde=False):
    """mixed histories: next / owned iterator / record sets / exact-count sets / seeks"""
    alpha = FA if fmt == "fasta" else FQ
    fl = flags or {}
    ops = [{"o": "next"}, {"o": "set", "s": 0}, {"o": "set", "s": 1}, {"o": "exact", "s": 0, "n": 1}, {"o": "exact", "s": 1, "n": 2}, {"o": "iter"}]
    if seeks:
        ops += [{"o": "seekr", "i": 0}, {"o": "seekl", "i": 1}]
    tails = [{"o": "next"}, {"o": "set", "s": 0}, {"o": "exact", "s": 1, "n": 2}]
    L = q(tier, 4, 5) if fmt == "fasta" else q(tier, 0, 0)
    out = []
    if fmt == "fasta":
        out.append(("enum%d-hist-depth2" % L, suite(fmt, enum(alpha, L), {"upto_len_plus": 2}, {"enum": {"ops": ops, "depth": 2, "tails": tails}},
                                                    chunks=[[0]], slots=2, extra=1, flags=fl, sample=q(tier, 4, 0)), 8))
    rh = {"rand": {"n": q(tier, 3, 6), "len": 6, "seeks": seeks, "pols": pols, "serde": serde, "maxn": 3, "shrink": True}}
    out.append(("struct-randhist", suite(fmt, rnd(q(tier, 2500, 30000), maxrec=5, maxfield=4, damage=25), {"upto_len_plus": 3}, rh,
                                         chunks=[[0], [1], [2, 3]], conf_sample=q(tier, 5, 10), slots=3, extra=2, flags=fl), 8))
    out.append(("struct-fixedhist", suite(fmt, rnd(q(tier, 600, 6000), maxrec=6, maxfield=3, damage=15), {"upto_len_plus": 1},
                                          {"fixed": [SET0, EXACT(1), EXACT(2), EXACT(5), EXACT(18446744073709551615),
                                                     {"ops": [{"o": "next"}, {"o": "exact", "s": 0, "n": 1 << 62}], "tail": {"o": "next"}},
                                                     {"ops": [{"o": "next"}, {"o": "set", "s": 0}, {"o": "next"}, {"o": "exact", "s": 1, "n": 2}], "tail": {"o": "set", "s": 0}}]},
                                          chunks=[[0], [1]], conf_sample=q(tier, 8, 16), slots=2, extra=2, flags=fl), 4))
    return out


def pair_suites(fmt, tier, pp="C03"):
    alpha = FA if fmt == "fasta" else FQ
    L = q(tier, 5, 6) if fmt == "fasta" else q(tier, 6, 7)
    pols = [{"k": "std"}, {"k": "plus", "a": 1}, {"k": "du", "a": 4}, {"k": "dul", "a": 8, "b": 1 << 20}]
    # (the limits 24 and 32 are reached exactly by doubling from 3 / by 16 + 16: sizes the policy still permits)
    pols += [{"k": "dul", "a": 1 << 20, "b": 24}, {"k": "dul", "a": 16, "b": 32}]
    if pp == "C14":
        return [
            ("pair-intr-enum", suite(fmt, enum(alpha, L), [3, 5, 64], {"fixed": [NEXT, SET0]}, chunks=[[0], [1]], intr=[0, 1 + 1, 3], pols=[{"k": "std"}],
                                     pair=pp, slots=1, extra=1, sample=q(tier, 2, 0)), 8),
            ("pair-intr-struct", suite(fmt, rnd(q(tier, 800, 8000), maxrec=4, maxfield=4, damage=30), [3, 4, 8, 64], {"fixed": [NEXT, EXACT(2)]}, chunks=[[0], [1], [2]],
                                       intr=[0, 2, 3, 5], pols=[{"k": "std"}], pair=pp, slots=1, extra=1), 4),
        ]
    return [
        ("pair-enum%d" % L, suite(fmt, enum(alpha, L), {"abs": [3, 4, 5, 6, 64], "rel": [0, 1]}, {"fixed": [NEXT]}, chunks=[[0], [1]], intr=[0], pols=[{"k": "std"}, {"k": "plus", "a": 1}],
                                  pair=pp, slots=1, extra=2), 8),
        ("pair-enum%d-sets" % (L - 1), suite(fmt, enum(alpha, L - 1), {"abs": [3, 4, 5, 64], "rel": [1]}, {"fixed": [SET0, EXACT(2), ITER]}, chunks=[[0], [1]], intr=[0], pols=[{"k": "std"}],
                                             pair=pp, slots=1, extra=2), 4),
        ("pair-struct", suite(fmt, rnd(q(tier, 600, 6000), maxrec=5, maxfield=5, damage=40, anybyte=True), {"abs": [3, 4, 5, 8, 13, 64, 65536], "rel": [-2, -1, 0, 1, 2]},
                              {"fixed": [NEXT, SET0, EXACT(3)]}, chunks=[[0], [1], [2], [3, 1]], intr=[0, 2], pols=pols, pair=pp, conf_sample=q(tier, 12, 30), slots=1, extra=2), 4),
    ]


def fault_suites(fmt, tier):
    alpha = FA if fmt == "fasta" else FQ
    L = q(tier, 4, 5) if fmt == "fasta" else q(tier, 5, 6)
    kinds = ["other", "permission_denied", "unexpected_eof", "would_block", "seek_interrupted"]
    hist = {"fixed": [NEXT, SET0, EXACT(2), {"ops": [{"o": "next"}, {"o": "seekl", "i": 0}, {"o": "next"}, {"o": "seekl", "i": 1}], "tail": {"o": "next"}}]}
    return [
        ("fault-enum%d" % L, suite(fmt, enum(alpha, L), [3, 4, 64], hist, chunks=[[0], [1]], faults={"mode": "each", "kinds": kinds}, slots=1, extra=2, sample=q(tier, 3, 0)), 8),
        ("fault-struct", suite(fmt, rnd(q(tier, 300, 4000), maxrec=4, maxfield=4, damage=20), {"abs": [3, 5, 9], "rel": [-3, 1]}, {"rand": {"n": 2, "len": 5, "seeks": True}},
                               chunks=[[0], [2], [1]], conf_sample=3, faults={"mode": "each", "kinds": kinds}, slots=2, extra=3), 8),
        # seeks FORWARD to records not yet read (positions known beforehand), from a reader that has read nothing, one record or
        # one set - its buffer still holds the very first fill, leading blank lines included - with a source whose seek or
        # whose reads after the seek fail; then reading goes on
        ("fault-forward-seek", suite(fmt, rnd(q(tier, 300, 3000), maxrec=5, maxfield=3, damage=10), [8, 9, 12, 16],
                                     {"fixed": [{"ops": pre + [{"o": "seekl", "i": k}], "tail": t} for k in (2, 3, 4)
                                                for pre, t in (([{"o": "next"}], {"o": "next"}), ([], {"o": "next"}), ([{"o": "set", "s": 0}], {"o": "set", "s": 0}))]},
                                     chunks=[[0]], faults={"mode": "each", "kinds": ["other", "seek_interrupted"]}, slots=1, extra=2), 8),
    ]


def eof_suites(fmt, tier):
    """a source whose first read reports the end of the input (0 bytes) and that has data afterwards: the input the reader
    has seen is empty, and the end it has reported is final"""
    return [("eof-then-data-" + fmt, suite(fmt, rnd(q(tier, 150, 1500), maxrec=3, maxfield=3, damage=0), [16, 64], {"fixed": [NEXT, ITER, INTO, SET0, EXACT(2)]},
                                         chunks=[[1000000, 0]], slots=1, extra=3), 2)]


def midstream_suites(fmt, tier):
    """record-by-record reading with a policy installed in mid-stream, and with interrupted reads"""
    polh = {"fixed": [{"ops": [{"o": "next"}] * k + [{"o": "pol", "p": pk}], "tail": {"o": "next"}} for k in (1, 2, 3) for pk in ({"k": "std"}, {"k": "du", "a": 8})]
                     + [{"ops": [{"o": "next"}, {"o": "pol", "p": {"k": "std"}}, {"o": "next"}, {"o": "pol", "p": {"k": "plus", "a": 2}}], "tail": {"o": "iter"}}]}
    return [("next-policy-change-" + fmt, suite(fmt, rnd(q(tier, 400, 4000), maxrec=5, maxfield=4, damage=20), [3, 8, 64], polh, chunks=[[0]], slots=1, extra=1), 2),
            ("next-interrupted-" + fmt, suite(fmt, rnd(q(tier, 300, 3000), maxrec=4, maxfield=4, damage=20), [3, 8, 64], {"fixed": [NEXT, ITER]}, chunks=[[0], [2], [8]], intr=[2, 3],
                                             slots=1, extra=1), 2)]


def near_capacity_inputs(fmt):
    out = []
    for cap in (512, 1024):
        for first in (2, 3, 4):
            for L in (cap - first + 1, cap - 1):      # does not fit behind the first record, fits into the buffer
                if fmt == "fasta":
                    a = [62] + [97] * (first - 2) + [10]
                    b = [62, 98, 10] + [65] * (L - 4) + [10]
                    out.append(a + b + [62, 99, 10, 65, 10])
                else:
                    # the shortest FASTQ record has 6 bytes ("@ LF LF + LF LF")
                    a = [64, 10, 10, 43, 10, 10]
                    n = (L - 6) // 2
                    b = [64, 10] + [65] * n + [10, 43, 10] + [73] * n + [10]
                    out.append(a + b + [64, 99, 10, 65, 10, 43, 10, 73, 10])
    return out


def policy_suites(fmt, tier):
    alpha = FA if fmt == "fasta" else FQ
    L = q(tier, 5, 6) if fmt == "fasta" else q(tier, 6, 7)
    # (stall: a policy that answers with the current size once or twice - a legal answer that changes nothing - before it doubles)
    pols = [{"k": "std"}, {"k": "plus", "a": 1}, {"k": "plus", "a": 2}, {"k": "refuse"}, {"k": "dmax", "a": 6}, {"k": "dmax", "a": 12}, {"k": "du", "a": 4}, {"k": "dul", "a": 4, "b": 10},
            {"k": "stall", "a": 1}, {"k": "stall", "a": 2}]
    return [
        ("policy-enum%d" % L, suite(fmt, enum(alpha, L), [3, 4, 5], {"fixed": [NEXT, SET0, EXACT(2)]}, chunks=[[0]], pols=pols, slots=1, extra=2, sample=q(tier, 3 if fmt == "fasta" else 8, 0)), 8),
        ("policy-struct", suite(fmt, rnd(q(tier, 1500, 15000), maxrec=6, maxfield=6, damage=15), {"abs": [3, 4, 6, 8, 12], "rel": [-4, -1]},
                                {"rand": {"n": 2, "len": 5, "seeks": True, "pols": True}}, chunks=[[0], [1]], pols=pols, conf_sample=6, slots=2, extra=3), 8),
        # capacities of 512 and 1024 bytes: a very short record, then one that just fits into the buffer (it is cut off by the
        # buffer end at offset 2..4 and has to be moved to the front, not to make the buffer grow)
        ("policy-near-capacity", suite(fmt, {"list": near_capacity_inputs(fmt)}, [512, 1024], {"fixed": [NEXT, SET0]}, chunks=[[0]],
                                       pols=[{"k": "refuse"}, {"k": "std"}], slots=1, extra=1), 2),
        # a policy that refuses, then a permissive policy installed with set_policy(): the stream must go on
        ("policy-takeover", suite(fmt, rnd(q(tier, 500, 5000), maxrec=4, maxfield=8, damage=0), [3, 4, 6, 8],
                                  {"fixed": [{"ops": [{"o": "next"}] * k + [{"o": "pol", "p": {"k": pk, "a": 1}}], "tail": {"o": "next"}} for k in (1, 2, 3) for pk in ("std", "plus")]
                                            + [{"ops": [{"o": "set", "s": 0}] * k + [{"o": "pol", "p": {"k": "std"}}], "tail": {"o": "set", "s": 0}} for k in (1, 2)]},
                                  chunks=[[0]], pols=[{"k": "refuse"}, {"k": "dmax", "a": 6}, {"k": "dmax", "a": 12}], slots=1, extra=2), 4),
        # long inputs of small records: must never grow however long they are
        ("policy-long", suite(fmt, rnd(q(tier, 40, 150), maxrec=q(tier, 60, 120), maxfield=3, damage=0), [16, 24, 64], {"fixed": [NEXT, SET0]}, chunks=[[0], [5]], pols=[{"k": "plus", "a": 1}],
                              slots=1, extra=1), 4),
    ]


def build_jobs(prop, tier):
    """the jobs of one property"""
    J = []
    if prop == "C01":
        J.append(ReaderJob("c01", plain_suites("fasta", tier) + eof_suites("fasta", tier) + view_suites("fasta", tier)[1:2] + midstream_suites("fasta", tier)))
    elif prop == "C02":
        J.append(ReaderJob("c02", plain_suites("fastq", tier) + eof_suites("fastq", tier) + midstream_suites("fastq", tier)))
    elif prop == "C03":
        J.append(ReaderJob("c03", pair_suites("fasta", tier) + pair_suites("fastq", tier)))
    elif prop == "C04":
        # (also with policies installed in mid-stream, among them the retry after a refusal)
        S0 = {"o": "set", "s": 0}
        SH = {"o": "shrink", "s": 0}
        shr = {"fixed": [{"ops": [S0] * k + [SH], "tail": S0} for k in (1, 2, 3, 4)] + [{"ops": [{"o": "exact", "s": 0, "n": 3}, {"o": "exact", "s": 0, "n": 1}, SH, S0, SH], "tail": S0}]}
        shrink = [("shrink-after-refill-" + f2, suite(f2, rnd(q(tier, 600, 6000), maxrec=7, maxfield=6, damage=10), [8, 16, 24, 64], shr, chunks=[[0]], slots=1, extra=1), 4) for f2 in ("fasta", "fastq")]
        J.append(ReaderJob("c04", history_suites("fasta", tier) + history_suites("fastq", tier) + shrink + policy_suites("fasta", tier)[1:2] + policy_suites("fastq", tier)[1:2]
                           + policy_suites("fasta", tier)[3:] + policy_suites("fastq", tier)[3:]))
    elif prop == "C05":
        # "from any reader state": also seeks after a source error (the last of the fault suites' histories seeks)
        J.append(ReaderJob("c05", plain_suites("fasta", tier, extra_hists=False)[:2] + plain_suites("fastq", tier, extra_hists=False)[:2]
                           + history_suites("fasta", tier) + history_suites("fastq", tier)
                           + fault_suites("fasta", tier)[1:] + fault_suites("fastq", tier)[1:]
                           + policy_suites("fasta", tier)[3:] + policy_suites("fastq", tier)[1:2] + policy_suites("fastq", tier)[3:]))
    elif prop == "C06":
        J.append(ReaderJob("c06", plain_suites("fasta", tier)[-2:] + plain_suites("fastq", tier)[-2:] + history_suites("fasta", tier)[1:] + history_suites("fastq", tier)
                           + fault_suites("fasta", tier) + fault_suites("fastq", tier) + policy_suites("fasta", tier)[:2] + policy_suites("fastq", tier)[:2]
                           + eof_suites("fasta", tier) + eof_suites("fastq", tier) + policy_suites("fasta", tier)[3:4] + policy_suites("fastq", tier)[3:4]))
    elif prop == "C09":
        J.append(ReaderJob("c09", policy_suites("fasta", tier) + policy_suites("fastq", tier)))
    elif prop == "C13":
        fl = {"views": True}
        # every header over {space, 'a', a valid two-byte UTF-8 character split into its bytes, an invalid byte} up to
        # length 4 (5 in the thorough tier), in a fixed record: ids/descriptions with leading, trailing, double spaces,
        # invalid bytes only in the id or only in the description
        import itertools
        hb = [32, 97, 0xC3, 0xA9, 0xFF]
        heads = [list(h) for n in range(0, q(tier, 4, 5) + 1) for h in itertools.product(hb, repeat=n)]
        fa_in = [[62] + h + [10, 65, 67, 10, 71, 10] for h in heads]
        fq_in = [[64] + h + [10, 65, 67, 10, 43, 10, 73, 73, 10] for h in heads]
        hs = [("c13-headers-fasta", suite("fasta", {"list": fa_in}, [3, 64], {"fixed": [NEXT, SET0]}, chunks=[[0]], slots=1, extra=0, flags=fl), 2),
              ("c13-headers-fastq", suite("fastq", {"list": fq_in}, [3, 64], {"fixed": [NEXT, SET0]}, chunks=[[0]], slots=1, extra=0, flags=fl), 2)]
        # (owned copies as the two owned-record iterators hand them out)
        ow = [("owned-iterators-" + f2, suite(f2, rnd(q(tier, 500, 5000), maxrec=4, maxfield=5, damage=10), [3, 8, 64], {"fixed": [ITER, INTO]}, chunks=[[0]], slots=1, extra=1), 2) for f2 in ("fasta", "fastq")]
        # (records taken from a record set that is refilled again and again: ids of varying length, small capacities)
        rs = [("reused-sets-" + f2, suite(f2, rnd(q(tier, 1200, 12000), maxrec=8, maxfield=4, damage=0), [7, 9, 12, 16, 24], {"fixed": [SET0, EXACT(2)]}, chunks=[[0]], slots=1, extra=1, flags=fl), 4) for f2 in ("fasta", "fastq")]
        J.append(ReaderJob("c13", plain_suites("fasta", tier, fl)[1:] + plain_suites("fastq", tier, fl)[1:] + hs + ow + rs))
    elif prop == "C14":
        J.append(ReaderJob("c14", fault_suites("fasta", tier) + fault_suites("fastq", tier) + pair_suites("fasta", tier, "C14") + pair_suites("fastq", tier, "C14")))
    elif prop == "C17":
        # errors reached by next(), by record sets and after seeks - also after a seek the source refused
        J.append(ReaderJob("c17", plain_suites("fasta", tier) + plain_suites("fastq", tier)
                           + history_suites("fastq", tier)[:1] + fault_suites("fastq", tier)[1:]
                           + policy_suites("fastq", tier)[1:2] + policy_suites("fastq", tier)[3:]
                           + [("errors-whitespace-ids", suite("fastq", rnd(q(tier, 1500, 15000), maxrec=3, maxfield=6, damage=70, fieldalpha=[65, 66, 32, 9, 9, 11, 12, 13, 0xC2, 0xA0]),
                                                             [16, 64], {"fixed": [NEXT, SET0]}, chunks=[[0]], slots=1, extra=1), 4)]))
    elif prop == "C18":
        fl = {"alloc": True}
        reuse = []
        # a record set that has seen the end of the input (or an error) and is then reused for the same, no larger records
        S0 = {"o": "set", "s": 0}

        def E(n):
            return {"o": "exact", "s": 0, "n": n}
        hist = {"fixed": [{"ops": [S0] * k + [{"o": "seekl", "i": 0}] + [S0] * 3, "tail": S0} for k in (2, 3, 4, 6)]
                         + [{"ops": [{"o": "next"}] * 2 + [S0] * k + [{"o": "seekl", "i": 1}] + [S0] * 2, "tail": S0} for k in (2, 4)]
                         # the same through exact-count reads: the set sees the end (or an error) in read_record_set_exact, the
                         # reader seeks back and the set is refilled with the same records, by either kind of read
                         + [{"ops": [E(n)] * k + [{"o": "seekl", "i": 0}] + [E(n)] * 3, "tail": E(n)} for n in (1, 2, 3) for k in (3, 7)]
                         + [{"ops": [E(2)] * k + [{"o": "seekl", "i": 0}] + [S0] * 3 + [{"o": "seekl", "i": 0}] + [E(2)] * 2, "tail": S0} for k in (2, 4)]}
        for fmt in ("fasta", "fastq"):
            reuse.append(("reuse-after-end-" + fmt, suite(fmt, rnd(q(tier, 500, 5000), maxrec=6, maxfield=5, damage=15), [8, 16, 64], hist, chunks=[[0]], slots=1, extra=1, flags=fl), 4))
        J.append(ReaderJob("c18", plain_suites("fasta", tier, fl)[3:4] + plain_suites("fastq", tier, fl)[3:4] + history_suites("fasta", tier, fl, seeks=False)[1:] + history_suites("fastq", tier, fl, seeks=False) + reuse))
    elif prop == "C19":
        fl = {"serde": True}
        # (the last two suites also log every view of the records of the deserialised sets)
        flv = {"serde": True, "views": True}
        import itertools
        hb = [92, 120, 52, 49, 97, 32]      # backslash x 4 1 a space
        heads = [list(h) for n in range(0, q(tier, 5, 6) + 1) for h in itertools.product(hb, repeat=n)]
        esc = [("serde-escape-headers-fasta", suite("fasta", {"list": [[62] + h + [10, 65, 67, 10] for h in heads]}, [64], {"fixed": [NEXT, ITER, {"ops": [{"o": "set", "s": 0}, {"o": "serde", "s": 0}], "tail": {"o": "next"}}]}, chunks=[[0]], slots=1, extra=0, flags=fl), 4),
               ("serde-escape-headers-fastq", suite("fastq", {"list": [[64] + h + [10, 65, 10, 43, 10, 73, 10] for h in heads]}, [64], {"fixed": [NEXT, ITER, {"ops": [{"o": "set", "s": 0}, {"o": "serde", "s": 0}], "tail": {"o": "next"}}]}, chunks=[[0]], slots=1, extra=0, flags=fl), 4)]
        J.append(ReaderJob("c19", plain_suites("fasta", tier, fl)[2:4] + plain_suites("fastq", tier, fl)[2:4] + history_suites("fasta", tier, fl, serde=True)[1:] + history_suites("fastq", tier, fl, serde=True)
                           + history_suites("fasta", tier, flv, serde=True)[2:] + history_suites("fastq", tier, flv, serde=True)[1:] + esc))
    if prop in ("C01", "C02", "C03", "C04", "C05", "C06", "C09", "C13", "C14", "C17", "C18", "C19"):
        # long regular inputs (66 000 records and more): contents, counts, positions, the final error's line and a far seek at
        # sampled indices around 2^7, 2^8, 2^15, 2^16, judged by arithmetic (TraceLong.tla)
        J.append(SimpleTvJob("long", "long", "TraceLong", tier))
    return J


# ------------------------------------------------------------------------------------------
# parallel module

import random
import re
import subprocess

PAR_INV_PROPS = {
    "Paired": ["C07"], "NoDup": ["C07"], "AllDelivered": ["C07"], "InOrder1": ["C07"], "RecordsPaired": ["C07"],
    "RecordsInOrder": ["C07"], "SetsAreWhatReaderProduced": ["C07"],
    "ErrOnce": ["C15"], "ErrNoLater": ["C15"], "ErrDrain": ["C15"], "InitFailuresSurface": ["C15"],
    "ClosedOnlyAfterInitFailure": ["C15"], "PerRecordErrorsReturned": ["C15"],
    "BoundedSets": ["C16"], "ReaderAhead": ["C16"], "RecycledOnly": ["C16"],
    "Termination": ["C08"], "Temporal properties were violated.": ["C08"], "Deadlock reached.": ["C08"],
}


def par_configs(tier, rnd_):
    cfgs = []
    n = q(tier, 70, 500)
    for _ in range(n):
        ns = rnd_.choice([0, 1, 2, 3, 4, 5, 6, 9, 14])
        c = {"NW": rnd_.randint(1, 4), "Q": rnd_.randint(1, 4), "NSets": ns, "ErrAt": 0, "StopAfter": 99, "RInitFail": False, "DInitFailAt": 0}
        r = rnd_.random()
        if r < 0.25:
            c["ErrAt"] = rnd_.randint(1, ns + 1)
        elif r < 0.45:
            c["StopAfter"] = rnd_.randint(0, ns + 1)
        elif r < 0.52:
            c["RInitFail"] = True
        elif r < 0.62:
            c["DInitFailAt"] = rnd_.randint(1, c["Q"] + 2)
        elif r < 0.70:
            c["ErrAt"] = rnd_.randint(1, ns + 1)
            c["StopAfter"] = rnd_.randint(0, ns + 1)
        cfgs.append(c)
    # long inputs: the number of data sets must not depend on the input length
    # (the partial-order validation of a run of 2000 sets did not finish within two hours: 600 in the thorough tier)
    for ns in q(tier, [60, 300], [60, 300, 600]):
        cfgs.append({"NW": rnd_.randint(1, 4), "Q": rnd_.randint(1, 3), "NSets": ns, "ErrAt": 0, "StopAfter": 9999, "RInitFail": False, "DInitFailAt": 0})
    return cfgs


class ParJob:
    """thread-pool functions: record-mode runs, steered schedules from TLC, public entry points"""

    def __init__(self, name, tier):
        self.name, self.tier = name, tier

    def _validate(self, spec, files, wd, label):
        tv = vlib.trace_validate(spec, files, wd, timeout=1500, xmx="2g")
        notes = []
        for f in files:
            out = f + ".out"
            if not os.path.exists(out):
                continue
            for line in open(out, errors="replace"):
                m = re.search(r'<<"CONFORMANCE", "(.*)">>\s*$', line)
                if m:
                    j = json.loads(vlib.unescape_tla(m.group(1)))
                    if j["unexplained"]:
                        notes.append({"file": f, "unexplained_runs": j["unexplained"], "runs": j["runs"]})
        return tv, notes

    def run(self, wd):
        t0 = time.time()
        tier = self.tier
        rnd_ = random.Random(vlib.seed())
        mism, notes, samples = [], [], []
        states = traces = events = 0
        hang = False
        # 1. record mode
        cfgs = par_configs(tier, rnd_)
        files = []
        chunk = 60
        for i in range(0, len(cfgs), chunk):
            cp = os.path.join(wd, "par_cfgs_%d.json" % i)
            json.dump(cfgs[i:i + chunk], open(cp, "w"))
            op = os.path.join(wd, "par_rec_%d.json" % i)
            st = vlib.run_harness(["par-record", "--cfgs", cp, "--out", op, "--seed", str(vlib.seed() + i), "--reps", str(q(tier, 2, 4))])
            traces += st.get("runs", 0)
            hang = hang or st.get("hang", False)
            files.append(op)
            if hang:
                break       # the call did not return: that is already the verdict (C08); do not wait for more watchdogs
        log("[drive] %s/record: %d runs%s" % (self.name, traces, " (a run hung)" if hang else ""))
        # 2. schedules generated by TLC from the model, forced onto the real code
        nsched = q(tier, 300, 4000)
        sraw = os.path.join(wd, "sched.raw")
        cmd = vlib.java_cmd("2g", serial=False) + ["-workers", "1", "-seed", str(vlib.seed()), "-simulate", "num=%d" % nsched, "-depth", "300",
                                                   "-metadir", os.path.join(wd, "mdsched"), "-noGenerateSpecTE", "-config", "SchedParallel.cfg", "SchedParallel.tla"]
        env = dict(os.environ)
        env.pop("JAVA_TOOL_OPTIONS", None)
        p = subprocess.run(cmd, cwd=vlib.SPEC, env=env, stdout=subprocess.PIPE, stderr=subprocess.STDOUT, text=True, timeout=900)
        lines = []
        for line in p.stdout.splitlines():
            m = re.search(r'<<"SCHED", "(.*)">>\s*$', line)
            if m:
                lines.append(vlib.unescape_tla(m.group(1)))
        if not lines:
            log(p.stdout[-2000:])
            raise vlib.ToolError("no schedules generated")
        sfiles = []
        nfollowed = 0
        for i in range(0, len(lines), 150):
            if hang:
                break
            sp = os.path.join(wd, "sched_%d.ndjson" % i)
            open(sp, "w").write("\n".join(lines[i:i + 150]) + "\n")
            op = os.path.join(wd, "par_steer_%d.json" % i)
            st = vlib.run_harness(["par-steer", "--sched", sp, "--out", op])
            traces += st.get("runs", 0)
            nfollowed += st.get("followed", 0)
            hang = hang or st.get("hang", False)
            sfiles.append(op)
        log("[drive] %s/steer: %d schedules, %d followed to the last step" % (self.name, len(lines), nfollowed))
        samples.append({"schedule_from_tlc": json.loads(lines[0])})
        afiles = []
        tv, n1 = self._validate("TraceParallel", files + sfiles, wd, "record+steer")
        notes += n1
        states += tv["states"]
        for m in tv["mismatches"]:
            runs = json.load(open(m["shard"]))
            r = runs[m["run"] - 1]
            mism.append({"props": m["props"], "why": m["why"], "kind": "parallel", "fmt": None, "op": None, "res_kind": r["result"],
                         "case": {"par_cfg": r["cfg"], "result": r["result"], "obs": r["obs"], "steer": r.get("steer")}, "job": self.name})
        # 3. the public entry points on real readers
        for fmt in ("fasta", "fastq"):
            for k, (faults, n) in enumerate([(False, q(tier, 400, 4000)), (True, q(tier, 300, 3000)), (True, q(tier, 300, 3000)), (False, q(tier, 10, 80)), (False, q(tier, 250, 2500)), (False, q(tier, 300, 3000))]):
                if hang:
                    break
                sp = os.path.join(wd, "api_%s_%d.json" % (fmt, k))
                sd = {"fmt": fmt, "n": n, "apis": ["parallel", "parallel_init", "read_parallel", "records"], "faults": faults,
                      "gen": {"maxrec": 9, "maxfield": 4, "damage": 25 if k == 0 else 40}}
                if k == 2:
                    sd.update({"focus": "recinit", "gen": {"maxrec": 12, "maxfield": 3, "damage": 0}})
                if k == 3:
                    # long inputs: batches of several hundred records alternating with batches of two or three (counters only)
                    sd.update({"focus": "big", "gen": {"maxrec": 1, "maxfield": 1, "damage": 0}})
                if k == 5:
                    # a reader with a history: some records read one by one under a policy that permits no growth (possibly ending
                    # in BufferLimit), then the default policy installed, then handed to the parallel function
                    sd.update({"focus": "prehist", "gen": {"maxrec": 9, "maxfield": 6, "damage": 10}})
                if k == 4:
                    # a source that fails at a random offset of a well-formed input
                    sd.update({"focus": "iofail", "gen": {"maxrec": 9, "maxfield": 4, "damage": 0}})
                json.dump(sd, open(sp, "w"))
                op = os.path.join(wd, "api_%s_%d.ndjson" % (fmt, k))
                st = vlib.run_harness(["par-api", "--suite", sp, "--out", op, "--seed", str(vlib.seed() + k)])
                traces += st.get("runs", 0)
                hang = hang or st.get("hang", False)
                afiles.append(op)
        tv2 = vlib.trace_validate("TraceParObs", afiles, wd, timeout=1500, xmx="2g") if afiles else {"states": 0, "mismatches": []}
        states += tv2["states"]
        for m in tv2["mismatches"]:
            r = json.loads(vlib.shard_line(m["shard"], m["run"]))
            small = {k: r[k] for k in ("api", "fmt", "input", "cap", "NW", "Q", "stop_after", "rinit_fail", "recinit_fail_at", "setinit_fail_at", "result")}
            mism.append({"props": m["props"], "why": m["why"], "kind": "parapi", "fmt": r["fmt"], "op": r["api"], "res_kind": r["result"].get("k"),
                         "case": {"par_api": small, "ncalls": r["ncalls"], "input_is_pattern": r["big"], "counters": {k: r[k] for k in ("nsetinit", "nrecinit", "nbad", "set_sizes")}}, "job": self.name})
        try:
            r0 = json.loads(vlib.shard_line(afiles[0], 1))
            samples.append({"api_run": {k: r0[k] for k in ("api", "fmt", "input", "cap", "NW", "Q", "result")}, "consumer_calls": len(r0["calls"])})
        except Exception:
            pass
        for n_ in notes:
            log("NOTE drift: %d run(s) in %s not explained by any interleaving of Parallel.tla" % (len(n_["unexplained_runs"]), os.path.basename(n_["file"])))
        return {"name": self.name, "kind": "tv", "mismatches": mism, "states": states, "transitions": states, "traces": traces, "events": traces,
                "samples": samples, "wall": time.time() - t0, "drift": notes, "hang": hang}


def par_jobs(prop, tier):
    return [McJob("mcparallel", "MCParallel", "MCParallel_" + tier, ["C07", "C08", "C15", "C16"], workers=12, timeout=q(tier, 900, 7200),
                  xmx="12g", inv_props=PAR_INV_PROPS),
            ParJob("par", tier)]


_old_build_jobs = build_jobs


def build_jobs(prop, tier):
    if prop in ("C07", "C08", "C15", "C16"):
        return par_jobs(prop, tier)
    return _old_build_jobs(prop, tier)


# ------------------------------------------------------------------------------------------
# writers, iterators, line endings

class SimpleTvJob:
    """one harness subcommand writing one ndjson file, validated by one trace spec"""

    def __init__(self, name, sub, spec, tier):
        self.name, self.sub, self.spec, self.tier = name, sub, spec, tier

    def run(self, wd):
        t0 = time.time()
        op = os.path.join(wd, self.name + ".ndjson")
        args = [self.sub, "--out", op, "--seed", str(vlib.seed())]
        if self.tier == "thorough":
            args.append("--thorough")
        st = vlib.run_harness(args)
        tv = vlib.trace_validate(self.spec, [op], wd)
        mism = []
        for m in tv["mismatches"]:
            line = json.loads(vlib.shard_line(m["shard"], m["run"]))
            small = {k: v for k, v in line.items() if k in ("ev", "head", "seq", "qual", "input", "cap", "kf", "kb", "fmt", "wrap", "recs", "n", "mode", "crlf", "bad", "count", "last", "seek", "m", "w", "via_set", "len", "how", "first", "second", "pos1", "pos2", "rle", "steps", "nrec", "nsteps", "panic")}
            mism.append({"props": m["props"], "why": m["why"], "kind": m["kind"], "fmt": line.get("fmt"), "op": line.get("ev"), "res_kind": None,
                         "case": {"event": small}, "job": self.name})
        sample = None
        try:
            sample = json.loads(vlib.shard_line(op, 1))
            for k in list(sample.keys()):
                if isinstance(sample[k], list) and len(json.dumps(sample[k])) > 300:
                    sample[k] = "... (%d entries)" % len(sample[k])
        except Exception:
            pass
        return {"name": self.name, "kind": "tv", "mismatches": mism, "states": tv["states"], "transitions": tv["states"], "traces": st.get("cases", 0),
                "events": st.get("cases", 0), "samples": [{"logged_case": sample}], "wall": time.time() - t0}


def gen_struct_groups(wd):
    """TLC evaluates GenStruct: well-formed structures and their LF/CRLF renderings"""
    cmd = vlib.java_cmd("2g", serial=False) + ["-workers", "1", "-metadir", os.path.join(wd, "mdgs"), "-cleanup", "-noGenerateSpecTE", "-config", "GenStruct.cfg", "GenStruct.tla"]
    env = dict(os.environ)
    env.pop("JAVA_TOOL_OPTIONS", None)
    p = subprocess.run(cmd, cwd=vlib.SPEC, env=env, stdout=subprocess.PIPE, stderr=subprocess.STDOUT, text=True, timeout=600)
    groups = {"fasta": [], "fastq": []}
    for line in p.stdout.splitlines():
        m = re.search(r'<<"GROUP", "(.*)">>\s*$', line)
        if m:
            j = json.loads(vlib.unescape_tla(m.group(1)))
            groups[j["fmt"]].append(j["r"])
    if not groups["fasta"] or not groups["fastq"]:
        log(p.stdout[-2000:])
        raise vlib.ToolError("GenStruct produced no groups")
    return groups


def crlf_suites(tier, wd):
    g = gen_struct_groups(wd)
    out = []
    for fmt in ("fasta", "fastq"):
        out.append(("genstruct-%s" % fmt, suite(fmt, {"groups": g[fmt]}, {"abs": [3, 4, 5, 7, 64]}, {"fixed": [NEXT, SET0]}, chunks=[[0]], pair="C12", slots=1, extra=1), 4))
        out.append(("wellformed-%s" % fmt, suite(fmt, {"wf": {"n": q(tier, 400, 5000), "maxrec": 5, "maxfield": 6}}, {"abs": [3, 5, 16, 64], "rel": [-1]}, {"fixed": [NEXT, EXACT(2), ITER]},
                                                 chunks=[[0], [1]], pair="C12", slots=1, extra=1), 4))
        # every view of the records (owned copies, full / owned sequence, line iterator from the back and through nth)
        out.append(("wellformed-views-%s" % fmt, suite(fmt, {"wf": {"n": q(tier, 300, 4000), "maxrec": 4, "maxfield": 8}}, {"abs": [3, 16, 64]}, {"fixed": [NEXT, SET0]}, chunks=[[0]],
                                                       pair="C12", slots=1, extra=0, flags={"views": True}), 4))
    return out


def view_suites(fmt, tier):
    fl = {"views": True}
    alpha = FA if fmt == "fasta" else FQ
    L = 5 if fmt == "fasta" else 6
    return [
        ("views-enum%d" % L, suite(fmt, enum(alpha, L), [3, 5, 64], {"fixed": [NEXT]}, chunks=[[0]], slots=1, extra=0, flags=fl, sample=(0 if fmt == "fasta" else 2)), 4),
        ("views-struct", suite(fmt, rnd(q(tier, 1500, 20000), maxrec=4, maxfield=6, damage=10, anybyte=True), {"abs": [3, 7, 16, 64], "rel": [0]}, {"fixed": [NEXT]}, chunks=[[0], [2]],
                               conf_sample=4, slots=1, extra=0, flags=fl), 4),
        # headers rich in blanks other than the space (tab, VT, FF, U+00A0, U+0085): id/desc split at the first SPACE only
        ("views-whitespace", suite(fmt, rnd(q(tier, 1200, 12000), maxrec=3, maxfield=6, damage=0, fieldalpha=[65, 66, 32, 32, 9, 9, 11, 12, 0xC2, 0xA0, 0x85]),
                                   [16, 64], {"fixed": [NEXT]}, chunks=[[0]], slots=1, extra=0, flags=fl), 4),
        ("views-wellformed", suite(fmt, {"wf": {"n": q(tier, 300, 4000), "maxrec": 4, "maxfield": 8}}, {"abs": [3, 16, 64]}, {"fixed": [NEXT, SET0]}, chunks=[[0]], pair="C12", slots=1, extra=0, flags=fl), 4),
    ]


_old_build_jobs2 = build_jobs


def build_jobs(prop, tier):
    if prop == "C10":
        return [McJob("wrapwriter", "WrapWriter", "WrapWriter_" + tier, ["C10"], workers=8, timeout=3600, xmx="6g"),
                SimpleTvJob("writer", "writer", "TraceWriter", tier),
                SimpleTvJob("long", "long", "TraceLong", tier),
                ReaderJob("c10views", view_suites("fasta", tier))]
    if prop == "C11":
        return [SimpleTvJob("writer", "writer", "TraceWriter", tier),
                SimpleTvJob("long", "long", "TraceLong", tier),
                ReaderJob("c11views", view_suites("fastq", tier) + view_suites("fasta", tier) + policy_suites("fastq", tier)[3:4])]
    if prop == "C12":
        class J:
            name = "c12"

            def run(self, wd):
                return ReaderJob("c12", crlf_suites(tier, wd)).run(wd)
        return [J()]
    if prop == "C20":
        return [McJob("seqlinesiter", "SeqLinesIter", "SeqLinesIter", ["C20"], workers=4, timeout=600, xmx="4g"),
                SimpleTvJob("iters", "iters", "TraceIter", tier),
                ReaderJob("c20views", view_suites("fasta", tier)[1:2] + eof_suites("fasta", tier) + eof_suites("fastq", tier)),
                ReaderJob("c20owned", [("owned-iter-fused", suite("fasta", rnd(q(tier, 400, 4000), maxrec=4, maxfield=4, damage=30), [3, 8, 64], {"fixed": [ITER, INTO]}, chunks=[[0]], slots=1, extra=3), 2),
                                       ("owned-iter-fused-fq", suite("fastq", rnd(q(tier, 400, 4000), maxrec=4, maxfield=4, damage=30), [3, 8, 64], {"fixed": [ITER, INTO]}, chunks=[[0]], slots=1, extra=3), 2)])]
    return _old_build_jobs2(prop, tier)


# ------------------------------------------------------------------------------------------
# model-checking jobs of the reader specifications

def mc_readera(tier):
    # Judge is evaluated in every action; TLC's cost statistics (-coverage) make that very slow
    allp = ["C01", "C02", "C04", "C05", "C06", "C09", "C14"]
    return McJob("mcreadera", "MCReaderA", "MCReaderA_" + tier, allp, workers=8, timeout=q(tier, 900, 7200), xmx="8g", coverage=False,
                 inv_props={"NoFalseAlarm": allp, "Sensitive": allp, "Consequences": allp})


def mc_fasta_b(tier):
    return McJob("fastareader", "FastaReader", "FastaReader_" + tier, ["C01"], workers=10, timeout=q(tier, 900, 7200), xmx="10g", coverage=False,
                 inv_props={"RetOK": ["C01", "C03", "C06"], "PosOK": ["C05", "C17", "C03"], "GrowOnlyWhenNeeded": ["C09"], "BufInv": ["C06"]})


def mc_fastq_b(tier):
    return McJob("fastqreader", "FastqReader", "FastqReader_" + tier, ["C02"], workers=10, timeout=q(tier, 900, 7200), xmx="10g", coverage=False,
                 inv_props={"RetOK": ["C02", "C03", "C06"], "FieldsOK": ["C17", "C03"], "PosOK": ["C05", "C03"], "GrowOnlyWhenNeeded": ["C09"], "BufInv": ["C06"]})


_old_build_jobs3 = build_jobs


def build_jobs(prop, tier):
    J = _old_build_jobs3(prop, tier)
    if prop == "C01":
        J = [mc_readera(tier), mc_fasta_b(tier)] + J
    elif prop == "C02":
        J = [mc_readera(tier), mc_fastq_b(tier)] + J
    elif prop in ("C03", "C05", "C09", "C17"):
        J = [mc_fasta_b(tier), mc_fastq_b(tier)] + J
        if prop == "C03":
            J = [McJob("bufredux", "BufRedux", "BufRedux", ["C03", "C14"], workers=4, timeout=600, xmx="4g")] + J
    elif prop == "C14":
        J = [McJob("bufredux", "BufRedux", "BufRedux", ["C03", "C14"], workers=4, timeout=600, xmx="4g")] + J
    elif prop == "C04":
        J = [mc_readera(tier)] + J
    elif prop == "C06":
        J = [mc_fasta_b(tier), mc_fastq_b(tier)] + J
    return J


# ------------------------------------------------------------------------------------------
# drift detection: level-(B) model state vs. verif_snapshot() of the real reader

class DriftJob:
    """TLC prints the private reader state the (B) model predicts at every return (SnapFasta/SnapFastq);
    the harness records the real reader's snapshots for the same inputs; differences are NOTES."""

    FIELDS = {"fasta": ["state", "buf_len", "cap", "start", "search_pos", "seq_pos", "pos_line", "pos_byte"],
              "fastq": ["state", "incomplete_pos", "buf_len", "cap", "start", "seq", "sep", "qual", "pos_line", "pos_byte"]}

    def __init__(self, fmt, tier):
        self.fmt, self.tier = fmt, tier
        self.name = "drift-" + fmt

    def run(self, wd):
        t0 = time.time()
        spec = "SnapFasta" if self.fmt == "fasta" else "SnapFastq"
        cfgp = os.path.join(vlib.SPEC, "%s_%s.cfg" % (spec, self.tier))
        consts = open(cfgp).read()
        alpha = [int(v) for v in re.search(r"Alphabet = \{([^}]*)\}", consts).group(1).split(",")]
        maxlen = int(re.search(r"MaxLen = (\d+)", consts).group(1))
        caps = [int(v) for v in re.search(r"Caps = \{([^}]*)\}", consts).group(1).split(",")]
        limit = int(re.search(r"GrowLimit = (\d+)", consts).group(1))
        maxcalls = int(re.search(r"MaxCalls = (\d+)", consts).group(1))
        cmd = vlib.java_cmd("4g", serial=False) + ["-workers", "1", "-metadir", os.path.join(wd, "mdsnap" + self.fmt), "-cleanup", "-noGenerateSpecTE",
                                                   "-config", "%s_%s.cfg" % (spec, self.tier), spec + ".tla"]
        env = dict(os.environ)
        env.pop("JAVA_TOOL_OPTIONS", None)
        try:
            p = subprocess.run(cmd, cwd=vlib.SPEC, env=env, stdout=subprocess.PIPE, stderr=subprocess.STDOUT, text=True, timeout=q(self.tier, 3600, 18000))
        except subprocess.TimeoutExpired:
            raise vlib.ToolError("TLC (model snapshots for the drift comparison) timed out")
        model = {}
        for line in p.stdout.splitlines():
            m = re.search(r'<<"SNAP", "(.*)">>\s*$', line)
            if m:
                j = json.loads(vlib.unescape_tla(m.group(1)))
                model[(tuple(j["x"]), j["cap0"], j["call"])] = j
        if not model or "No error has been found" not in p.stdout:
            log(p.stdout[-2000:])
            raise vlib.ToolError("snapshot model produced nothing")
        s = suite(self.fmt, enum(alpha, maxlen), caps, {"fixed": [NEXT]}, chunks=[[0]], pols=[{"k": "dmax", "a": limit}], slots=1, extra=maxcalls)
        sp = os.path.join(wd, "drift_%s.suite.json" % self.fmt)
        json.dump(s, open(sp, "w"))
        prefix = os.path.join(wd, "drift_%s" % self.fmt)
        st = vlib.run_harness(["reader", "--suite", sp, "--out", prefix, "--shards", "1", "--seed", "1", "--snap"])
        compared = diffs = 0
        examples = []
        x = cap0 = None
        call = 0
        for line in open(prefix + ".0.ndjson"):
            e = json.loads(line)
            if e["ev"] == "reset":
                x, cap0, call = tuple(e["input"]), e["cap"], 0
            elif e["ev"] == "call":
                call += 1
                mj = model.get((x, cap0, call))
                if mj is None or "snap" not in e:
                    continue
                compared += 1
                bad = [f for f in self.FIELDS[self.fmt] if e["snap"].get(f) != mj.get(f)]
                if bad:
                    diffs += 1
                    if len(examples) < 3:
                        examples.append({"input": list(x), "cap": cap0, "call": call, "fields": bad,
                                         "model": {f: mj.get(f) for f in bad}, "code": {f: e["snap"].get(f) for f in bad}})
        notes = []
        if diffs:
            notes.append({"file": "drift_%s" % self.fmt, "unexplained_runs": diffs, "examples": examples})
            log("NOTE drift: %d of %d compared returns of %s::Reader::next() differ from the (B) model's private state, e.g. %s" % (diffs, compared, self.fmt, json.dumps(examples[:1])))
        log("[drift] %s: %d model snapshots, %d returns compared, %d differ, %.1fs" % (self.fmt, len(model), compared, diffs, time.time() - t0))
        return {"name": self.name, "kind": "drift", "mismatches": [], "states": 0, "transitions": 0, "traces": st.get("cases", 0), "events": st.get("events", 0),
                "samples": [{"model_snapshot": next(iter(model.values()))}], "wall": time.time() - t0, "drift": notes,
                "snapshots_compared": compared, "snapshots_differ": diffs}


_old_build_jobs4 = build_jobs


def build_jobs(prop, tier):
    J = _old_build_jobs4(prop, tier)
    if prop == "C01":
        J.append(DriftJob("fasta", tier))
    elif prop == "C02":
        J.append(DriftJob("fastq", tier))
    return J


class MachineDriftJob:
    """the big-step machine models (FastaMachine): model-check the refinement to ReaderA and compare the private
    state after every call of every short history with the real reader's verif_snapshot()"""

    FIELDS_BY = {"fasta": ["state", "buf_len", "cap", "start", "search_pos", "seq_pos", "pos_line", "pos_byte"],
                 "fastq": ["state", "incomplete_pos", "buf_len", "cap", "start", "end", "seq", "sep", "qual", "pos_line", "pos_byte"]}

    def __init__(self, fmt, tier):
        self.fmt, self.tier = fmt, tier
        self.name = "machine-drift-" + fmt
        self.FIELDS = self.FIELDS_BY[fmt]

    def run(self, wd):
        t0 = time.time()
        spec = "MCFastaMachine" if self.fmt == "fasta" else "MCFastqMachine"
        consts = open(os.path.join(vlib.SPEC, "%s_%s.cfg" % (spec, self.tier))).read()
        alpha = [int(v) for v in re.search(r"Alphabet = \{([^}]*)\}", consts).group(1).split(",")]
        maxlen = int(re.search(r"MaxLen = (\d+)", consts).group(1))
        caps = [int(v) for v in re.search(r"Caps = \{([^}]*)\}", consts).group(1).split(",")]
        limit = int(re.search(r"GrowLimit = (\d+)", consts).group(1))
        maxops = int(re.search(r"MaxOps = (\d+)", consts).group(1))
        # the same constants, smaller depth, with the printing invariant
        snapcfg = os.path.join(wd, "snapmachine_%s.cfg" % self.fmt)
        depth = min(maxops, 2 if self.tier == "quick" else 3)
        if self.tier == "quick" and self.fmt == "fastq":
            maxlen -= 1          # the comparison (not the refinement check) on a smaller space in the quick tier
        consts = re.sub(r"MaxLen = \d+", "MaxLen = %d" % maxlen, consts)
        consts = re.sub(r"MaxFail = \d+", "MaxFail = 0", consts)      # the comparison runs without source faults
        open(snapcfg, "w").write(re.sub(r"MaxOps = \d+", "MaxOps = %d" % depth, consts).replace("INVARIANT Refines", "INVARIANT Emit"))
        cmd = vlib.java_cmd("6g", serial=False) + ["-workers", "1", "-metadir", os.path.join(wd, "mdsnapm" + self.fmt), "-cleanup", "-noGenerateSpecTE", "-config", snapcfg, spec + ".tla"]
        env = dict(os.environ)
        env.pop("JAVA_TOOL_OPTIONS", None)
        try:
            p = subprocess.run(cmd, cwd=vlib.SPEC, env=env, stdout=subprocess.PIPE, stderr=subprocess.STDOUT, text=True, timeout=q(self.tier, 3600, 18000))
        except subprocess.TimeoutExpired:
            raise vlib.ToolError("TLC (model snapshots for the drift comparison) timed out")
        model = {}
        for line in p.stdout.splitlines():
            m = re.search(r'<<"SNAP", "(.*)">>\s*$', line)
            if m:
                j = json.loads(vlib.unescape_tla(m.group(1)))
                model[(tuple(j["x"]), j["cap0"], tuple(j["hist"]))] = j
        if not model or "No error has been found" not in p.stdout:
            log(p.stdout[-2000:])
            raise vlib.ToolError("machine snapshot model produced nothing")
        ops = [{"o": "next"}, {"o": "set", "s": 0}, {"o": "set", "s": 1}, {"o": "exact", "s": 0, "n": 1}, {"o": "exact", "s": 1, "n": 2},
               {"o": "exact", "s": 0, "n": 2}, {"o": "seekr", "i": 0}, {"o": "seekr", "i": 1}]
        s = suite(self.fmt, enum(alpha, maxlen), caps, {"enum": {"ops": ops, "depth": depth, "tails": [{"o": "next"}]}}, chunks=[[0]],
                  pols=[{"k": "dmax", "a": limit}], slots=2, extra=0)
        sp = os.path.join(wd, "mdrift_%s.suite.json" % self.fmt)
        json.dump(s, open(sp, "w"))
        prefix = os.path.join(wd, "mdrift_%s" % self.fmt)
        st = vlib.run_harness(["reader", "--suite", sp, "--out", prefix, "--shards", "1", "--seed", "1", "--snap"])
        compared = diffs = 0
        examples = []
        x = cap0 = None
        hist = []
        for line in open(prefix + ".0.ndjson"):
            e = json.loads(line)
            if e["ev"] == "reset":
                x, cap0, hist = tuple(e["input"]), e["cap"], []
            elif e["ev"] == "call":
                if e["op"] == "seek":
                    hist.append("seek:%d:%d" % (e["to"][0], e["to"][1]))
                elif e["op"] == "exact":
                    hist.append("exact%d" % e["n"])
                else:
                    hist.append(e["op"])
                mj = model.get((x, cap0, tuple(hist)))
                if mj is None or "snap" not in e:
                    continue
                compared += 1
                bad = [f for f in self.FIELDS if e["snap"].get(f) != mj.get(f)]
                if bad:
                    diffs += 1
                    if len(examples) < 3:
                        examples.append({"input": list(x), "cap": cap0, "history": list(hist), "fields": bad,
                                         "model": {f: mj.get(f) for f in bad}, "code": {f: e["snap"].get(f) for f in bad}})
        notes = []
        if diffs:
            notes.append({"file": "mdrift_%s" % self.fmt, "unexplained_runs": diffs, "examples": examples})
            log("NOTE drift: %d of %d compared calls differ from the big-step machine model, e.g. %s" % (diffs, compared, json.dumps(examples[:1])))
        log("[machine-drift] %s: %d model states, %d calls compared, %d differ, %.1fs" % (self.fmt, len(model), compared, diffs, time.time() - t0))
        return {"name": self.name, "kind": "drift", "mismatches": [], "states": 0, "transitions": 0, "traces": st.get("cases", 0), "events": st.get("events", 0),
                "samples": [{"machine_snapshot": next(iter(model.values()))}], "wall": time.time() - t0, "drift": notes,
                "snapshots_compared": compared, "snapshots_differ": diffs}


def mc_fasta_machine(tier):
    return McJob("fastamachine", "MCFastaMachine", "MCFastaMachine_" + tier, ["C04"], workers=10, timeout=q(tier, 900, 10800), xmx="10g", coverage=False,
                 inv_props={"Refines": ["C04", "C05", "C09", "C06", "C14"]})


def mc_fastq_machine(tier):
    return McJob("fastqmachine", "MCFastqMachine", "MCFastqMachine_" + tier, ["C04"], workers=10, timeout=q(tier, 900, 10800), xmx="10g", coverage=False,
                 inv_props={"Refines": ["C04", "C05", "C09", "C06", "C14"]})


_old_build_jobs5 = build_jobs


def build_jobs(prop, tier):
    J = _old_build_jobs5(prop, tier)
    if prop == "C04":
        J = [mc_fasta_machine(tier), mc_fastq_machine(tier)] + J + [MachineDriftJob("fasta", tier), MachineDriftJob("fastq", tier)]
    elif prop in ("C05", "C06", "C14"):
        J = [mc_fasta_machine(tier), mc_fastq_machine(tier)] + J
        if prop in ("C06", "C14"):
            J = [mc_readera(tier)] + J
    elif prop == "C09":
        J = [mc_readera(tier)] + J
    return J


class ApalacheJob:
    """unbounded argument for C16: the data-set counting invariant of ParallelCount is inductive for every
    queue length (two Apalache queries: Init => IndInv, IndInv /\\ Next => IndInv' /\\ consequences)"""
    name = "apalache-parallelcount"

    def run(self, wd):
        t0 = time.time()
        ok = 0
        outs = []
        for args in (["--cinit=ConstInit", "--inv=IndInv", "--length=0"], ["--cinit=ConstInit", "--init=IndInit", "--inv=Safety", "--length=1"]):
            try:
                p = subprocess.run(["apalache-mc", "check", "--out-dir=" + os.path.join(wd, "apalache-out")] + args + ["ParallelCount.tla"], cwd=vlib.SPEC,
                                   stdout=subprocess.PIPE, stderr=subprocess.STDOUT, text=True, timeout=600)
                outs.append(p.stdout[-400:])
                if "EXITCODE: OK" in p.stdout:
                    ok += 1
            except subprocess.TimeoutExpired:
                outs.append("timeout")
        mism = []
        if ok < 2 and not any(o == "timeout" for o in outs):
            mism.append({"props": ["C16", "C08"], "why": ["counting_invariant_not_inductive"], "kind": "apalache", "case": {"output": outs}, "fmt": None, "job": self.name})
        log("[apalache] ParallelCount: %d of 2 obligations discharged in %.1fs" % (ok, time.time() - t0))
        return {"name": self.name, "kind": "proof", "mismatches": mism, "states": 0, "transitions": 0, "traces": 0, "samples": [
            {"apalache_obligations": ["Init => IndInv", "IndInv /\\ Next => (IndInv /\\ Bounded /\\ RecycleNeverBlocks)'"], "discharged": ok}], "wall": time.time() - t0}


_old_build_jobs6 = build_jobs


def build_jobs(prop, tier):
    J = _old_build_jobs6(prop, tier)
    if prop == "C16":
        J = [ApalacheJob()] + J
    return J
