"""Runner library: builds the harness, runs TLC (trace validation / model checking / generation),
parses MISMATCH / violation output, matches known findings, writes replay and evidence files.
python3 stdlib only. No verdict logic lives here: props/why come from the TLA+ specs."""
import hashlib
import json
import os
import re
import shutil
import subprocess
import sys
import time

ROOT = "/verif"
SPEC = os.environ.get("VERIF_SPEC", ROOT + "/spec")
# (development only: VERIF_HARNESS / VERIF_WORK / VERIF_SPEC let a second copy of the harness, built against a scratch
# worktree, run side by side; the registered commands never set them)
WORK = os.environ.get("VERIF_WORK", ROOT + "/work")
HARNESS = os.environ.get("VERIF_HARNESS", ROOT + "/harness")
BIN = HARNESS + "/target/release/vharness"
CP = "/opt/veriftools/tla/tla2tools.jar:/opt/veriftools/tla/CommunityModules-deps.jar"
MAX_JVMS = 8


class ToolError(Exception):
    pass


def log(*a):
    print(*a, file=sys.stderr, flush=True)


def seed():
    try:
        return int(os.environ.get("VERIF_SEED", "1"))
    except ValueError:
        return 1


def workdir(name):
    d = os.path.join(WORK, name)
    shutil.rmtree(d, ignore_errors=True)
    os.makedirs(d, exist_ok=True)
    return d


_built = False


def build_harness():
    """Rebuilds the harness (and seq_io with feature verif_hooks) from /repo's working tree."""
    global _built
    if _built:
        return
    t0 = time.time()
    env = dict(os.environ, CARGO_NET_OFFLINE="true")
    p = subprocess.run(["cargo", "build", "--release", "--offline"], cwd=HARNESS, env=env,
                       stdout=subprocess.PIPE, stderr=subprocess.STDOUT, text=True)
    if p.returncode != 0:
        log(p.stdout[-4000:])
        raise ToolError("harness build failed")
    _built = True
    log("[build] harness ok in %.1fs" % (time.time() - t0))


def run_harness(args, timeout=1800):
    build_harness()
    p = subprocess.run([BIN] + args, stdout=subprocess.PIPE, stderr=subprocess.PIPE, text=True, timeout=timeout)
    out = p.stdout.strip().splitlines()
    last = out[-1] if out else "{}"
    try:
        stats = json.loads(last)
    except Exception:
        stats = {}
    if p.returncode == 3:
        stats["hang"] = True
        return stats
    if p.returncode != 0:
        log(p.stdout[-2000:], p.stderr[-2000:])
        raise ToolError("harness %s exited %d" % (args[0], p.returncode))
    return stats


def java_cmd(xmx, extra_props=(), serial=True):
    # measured here: -Xms = -Xmx and two JIT compiler threads halve the wall time of 8 parallel JVMs
    gc = ["-XX:+UseSerialGC", "-XX:CICompilerCount=2"] if serial else ["-XX:+UseParallelGC"]
    return ["java"] + gc + ["-Xss256m", "-Xms" + xmx, "-Xmx" + xmx] + list(extra_props) + ["-cp", CP, "tlc2.TLC"]


def _tlc_procs(jobs, max_par):
    """jobs: list of (cmd, env, outpath). Runs at most max_par at a time; waits on PIDs."""
    running = []
    results = []
    pending = list(jobs)
    while pending or running:
        while pending and len(running) < max_par:
            cmd, env, outpath, tmo = pending.pop(0)
            f = open(outpath, "w")
            p = subprocess.Popen(cmd, cwd=SPEC, env=env, stdout=f, stderr=subprocess.STDOUT)
            running.append((p, f, outpath, time.time(), tmo))
        time.sleep(0.05)
        still = []
        for (p, f, outpath, t0, tmo) in running:
            rc = p.poll()
            if rc is None:
                if time.time() - t0 > tmo:
                    p.kill()
                    p.wait()
                    f.close()
                    results.append((outpath, "timeout"))
                else:
                    still.append((p, f, outpath, t0, tmo))
            else:
                f.close()
                results.append((outpath, rc))
        running = still
    return results


MISMATCH_RE = re.compile(r'<<"MISMATCH", "(.*)">>\s*$')
STATES_RE = re.compile(r"^(\d+) states generated, (\d+) distinct states found")


def unescape_tla(s):
    return json.loads('"' + s + '"')


# per-shard time limit of a trace validation (bin/check raises it for the thorough tier)
TV_TIMEOUT = 1500


def trace_validate(spec, shard_files, wd, timeout=None, xmx="2g"):
    """Validates each shard with its own single-worker TLC. Returns dict with mismatches
    (each with shard path), states, and raises ToolError on anything unexpected."""
    jobs = []
    if timeout is None or timeout < TV_TIMEOUT:
        timeout = TV_TIMEOUT
    for i, sh in enumerate(shard_files):
        if os.path.getsize(sh) == 0:
            continue
        env = dict(os.environ, TRACE=sh)
        env.pop("JAVA_TOOL_OPTIONS", None)
        md = os.path.join(wd, "md%d" % i)
        cmd = java_cmd(xmx, ["-Dtlc2.tool.queue.IStateQueue=StateDeque"]) + [
            "-workers", "1", "-checkpoint", "0", "-metadir", md, "-cleanup", "-noGenerateSpecTE", "-config", spec + ".cfg", spec + ".tla"]
        jobs.append((cmd, env, sh + ".out", timeout))
    t0 = time.time()
    res = _tlc_procs(jobs, MAX_JVMS)
    mism = []
    states = 0
    for (outpath, rc) in res:
        shard = outpath[:-4]
        text = open(outpath, errors="replace").read()
        if rc == "timeout":
            raise ToolError("TLC trace validation timed out on " + shard)
        ok_done = "Model checking completed. No error has been found." in text
        if not ok_done:
            log(text[-3000:])
            raise ToolError("TLC did not complete on %s (rc=%s)" % (shard, rc))
        for line in text.splitlines():
            m = MISMATCH_RE.search(line)
            if m:
                j = json.loads(unescape_tla(m.group(1)))
                j["shard"] = shard
                mism.append(j)
            m = STATES_RE.match(line)
            if m:
                states += int(m.group(2))
    log("[tv] %s: %d shards, %d states, %d mismatches, %.1fs" % (spec, len(jobs), states, len(mism), time.time() - t0))
    return {"mismatches": mism, "states": states, "wall": time.time() - t0}


_lines_cache = {}


def shard_line(shard, n):
    """n is 1-based"""
    if shard not in _lines_cache:
        if len(_lines_cache) > 4:
            _lines_cache.clear()
        with open(shard) as f:
            _lines_cache[shard] = f.read().split("\n")
    return _lines_cache[shard][n - 1]


def case_of(mismatch):
    """the replayable case (dict) of a reader mismatch"""
    reset = json.loads(shard_line(mismatch["shard"], mismatch["run"]))
    c = json.loads(reset["case"])
    return c, reset


COVER_RE = re.compile(r"^<(\w+) line (\d+), col \d+ to line \d+, col \d+ of module (\w+)>: (\d+):(\d+)")


def model_check(spec, cfg=None, wd=None, workers=12, timeout=1800, xmx="8g", simulate=None, coverage=True, extra=()):
    """Runs TLC model checking. Returns dict: ok, states, distinct, violated (name or None),
    output path, coverage (action -> count), prints (list of PrintT'ed tuples as text)."""
    cfg = cfg or spec
    wd = wd or workdir("mc_" + spec)
    md = os.path.join(wd, "md")
    cmd = java_cmd(xmx, serial=False) + ["-workers", str(workers), "-metadir", md, "-cleanup", "-noGenerateSpecTE"]
    if coverage and not simulate:
        cmd += ["-coverage", "1"]
    if simulate:
        cmd += ["-simulate", simulate]
    cmd += list(extra)
    cmd += ["-config", cfg + ".cfg", spec + ".tla"]
    env = dict(os.environ)
    env.pop("JAVA_TOOL_OPTIONS", None)
    out = os.path.join(wd, spec + "." + os.path.basename(cfg) + ".out")
    t0 = time.time()
    res = _tlc_procs([(cmd, env, out, timeout)], 1)
    rc = res[0][1]
    text = open(out, errors="replace").read()
    r = {"out": out, "rc": rc, "wall": time.time() - t0, "states": 0, "distinct": 0, "violated": None, "coverage": {}, "ok": False}
    if rc == "timeout" and not simulate:
        raise ToolError("TLC model checking timed out: " + spec)
    for line in text.splitlines():
        m = STATES_RE.match(line)
        if m:
            r["states"] = int(m.group(1))
            r["distinct"] = int(m.group(2))
        m = re.match(r"^Error: Invariant (\w+) is violated", line)
        if m:
            r["violated"] = m.group(1)
        m = re.match(r"^Error: Action property (\w+) is violated", line)
        if m:
            r["violated"] = m.group(1)
        if line.startswith("Error: Temporal properties were violated") or line.startswith("Error: Deadlock reached"):
            r["violated"] = r["violated"] or line[7:].strip()
        m = COVER_RE.match(line)
        if m:
            r["coverage"][m.group(1)] = r["coverage"].get(m.group(1), 0) + int(m.group(5))
    if simulate:
        # simulation runs until killed by the outer timeout or num reached
        m = re.findall(r"(\d+) states checked", text)
        if m:
            r["states"] = r["distinct"] = int(m[-1])
        r["ok"] = r["violated"] is None and "Error:" not in text
    else:
        r["ok"] = "Model checking completed. No error has been found." in text
    if not r["ok"] and r["violated"] is None:
        log(text[-3000:])
        raise ToolError("TLC failed on %s/%s" % (spec, cfg))
    log("[mc] %s/%s: %d states (%d distinct) %s in %.1fs" % (spec, os.path.basename(cfg), r["states"], r["distinct"],
                                                             "VIOLATED " + str(r["violated"]) if r["violated"] else "ok", r["wall"]))
    return r


# ------------------------------------------------------------------------------------------
# known findings

def load_findings():
    p = os.path.join(ROOT, "known_findings.json")
    if not os.path.exists(p):
        return []
    return json.load(open(p)).get("findings", [])


def blank_prefix_len(x):
    """length of the prefix of x consisting of complete blank lines (LF or CRLF)"""
    i = 0
    n = len(x)
    while i < n:
        if x[i] == 10:
            i += 1
        elif x[i] == 13 and i + 1 < n and x[i + 1] == 10:
            i += 2
        else:
            break
    return i


def sig_match(sig, rec):
    """sig: dict of conditions; rec: mismatch record enriched with case fields"""
    for k, v in sig.items():
        if k == "fmt":
            if rec.get("fmt") != v:
                return False
        elif k == "why_any":
            if not set(v) & set(rec.get("why", [])):
                return False
        elif k == "op":
            if rec.get("op") not in (v if isinstance(v, list) else [v]):
                return False
        elif k == "res_kind":
            if rec.get("res_kind") not in (v if isinstance(v, list) else [v]):
                return False
        elif k == "pred":
            fn = PREDICATES.get(v)
            if fn is None or not fn(rec):
                return False
        elif k == "kind":
            if rec.get("kind") != v:
                return False
        else:
            if rec.get(k) != v:
                return False
    return True


def _pred_blank_prefix_ge_cap(rec):
    c = rec.get("case") or {}
    x = c.get("x", [])
    # the blank prefix (plus a possible orphan CR) reaches the initial capacity
    return rec.get("fmt") == "fasta" and blank_prefix_len(x) + 1 >= c.get("cap", 1 << 60)


PREDICATES = {
    "fasta_blank_prefix_reaches_capacity": _pred_blank_prefix_ge_cap,
}


def classify(prop, records):
    """Splits mismatch records of property `prop` into (known, new) using known_findings.json."""
    fs = [f for f in load_findings() if f.get("status") == "open" and f.get("property") == prop]
    known = {}
    new = []
    for r in records:
        hit = None
        for f in fs:
            if sig_match(f.get("signature", {}), r):
                hit = f
                break
        if hit:
            known.setdefault(hit["id"], [hit, 0])[1] += 1
        else:
            new.append(r)
    return known, new


# ------------------------------------------------------------------------------------------
# replay + evidence

def write_replay(prop, rec):
    os.makedirs(os.path.join(ROOT, "replays"), exist_ok=True)
    body = json.dumps(rec, sort_keys=True)
    h = hashlib.sha1(body.encode()).hexdigest()[:10]
    p = os.path.join(ROOT, "replays", "%s-%s.json" % (prop, h))
    with open(p, "w") as f:
        f.write(body + "\n")
    return p


def write_evidence(prop, tier, coverage, assumptions, wall, violations, level="model_checking"):
    # (development only: runs against a scratch worktree - VERIF_HARNESS set - leave /verif/evidence alone)
    evdir = os.path.join(WORK, "evidence-scratch") if "VERIF_HARNESS" in os.environ else os.path.join(ROOT, "evidence")
    os.makedirs(evdir, exist_ok=True)
    ev = {
        "property_id": prop,
        "tier": tier,
        "seed": seed(),
        "level": level,
        "coverage": coverage,
        "assumptions": assumptions,
        "wall_s": round(wall, 2),
        "violations": violations,
    }
    p = os.path.join(evdir, prop + ".json")
    tmp = p + ".tmp"
    with open(tmp, "w") as f:
        json.dump(ev, f, indent=1)
        f.write("\n")
    os.replace(tmp, p)
    return p
