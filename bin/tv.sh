#!/bin/bash
# usage: tv.sh <Spec> <trace> <metadir>  -- single trace validation run (debug helper)
cd /verif/spec
CP=/opt/veriftools/tla/tla2tools.jar:/opt/veriftools/tla/CommunityModules-deps.jar
TRACE="$2" timeout ${TV_TIMEOUT:-600} java -XX:+UseSerialGC -Xss1g -Xmx${TV_XMX:-3g} -Dtlc2.tool.queue.IStateQueue=StateDeque -cp $CP tlc2.TLC -workers 1 -metadir "$3" -cleanup -noGenerateSpecTE -config "$1.cfg" "$1.tla" 2>&1 | grep -v "^Linting\|^Parsing\|^Semantic\|^Picked up\|^Warning: Please run the Java"
