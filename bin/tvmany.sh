#!/bin/bash
# usage: tvmany.sh <Spec> <prefix> <nshards>  -- debug helper: validate shards in parallel
pids=""
for i in $(seq 0 $(($3-1))); do
  /verif/bin/tv.sh $1 $2.$i.ndjson $2.md$i > $2.$i.out 2>&1 &
  pids="$pids $!"
done
wait $pids
grep -h -c MISMATCH $2.*.out | paste -sd+ | bc
grep -h "states generated\|NOT-CONSUMED\|Error" $2.*.out | sort | uniq -c | head
