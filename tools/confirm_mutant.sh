#!/bin/bash
# usage: confirm_mutant.sh <mutant dir with patch.diff + demo.rs> <scratch worktree>
# confirms: patch applies; full test suite passes with it; demo fails with it; demo passes without it.
d="$1"; wt="$2"
cd "$wt" || exit 2
git checkout -q -- . ; rm -f tests/demo.rs
git apply "$d/patch.diff" || { echo "CONFIRM $d: patch does not apply"; exit 1; }
suite=$(cargo test --offline 2>&1 | grep -E "^test result" | tr '\n' ' ')
fails=$(echo "$suite" | grep -oE "[0-9]+ failed" | awk '{s+=$1} END {print s+0}')
cp "$d/demo.rs" tests/demo.rs
demo_with=$(cargo test --offline --test demo 2>&1 | grep -E "^test result" | head -1)
git checkout -q -- . 
demo_without=$(cargo test --offline --test demo 2>&1 | grep -E "^test result" | head -1)
rm -f tests/demo.rs
echo "CONFIRM $d: suite_failed=$fails | demo with patch: $demo_with | demo clean: $demo_without"
