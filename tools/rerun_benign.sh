#!/bin/bash
# runs the behaviour-preserving control changes of seeded/benign through the checks they can touch; every line must say OK
out=/verif/seeded/benign/RESULTS.txt
: > "$out"
run() { f="$1"; shift; echo "### $f" >> "$out"; cd /repo || exit 2; git diff --quiet || { echo "repo dirty" >> "$out"; exit 2; }
  git apply /verif/seeded/benign/$f.diff || { echo "does not apply" >> "$out"; return; }
  for p in "$@"; do o=$(cd /verif && bin/check $p --tier quick 2>&1); rc=$?; echo "$p rc=$rc drift_notes=$(echo "$o" | grep -c 'NOTE drift') $(echo "$o" | tail -1 | cut -c1-120)" >> "$out"; done
  git -C /repo checkout -- . ; }
run b1_default_bufsize C01 C02
run b2_fastq_always_trimmed_compare C02 C12 C03 C04 C17
run b3_fasta_extra_make_room C01 C05 C18 C03
run b4_parallel_clone_sender_late C07 C08 C15
run b5_stdpolicy_via_doubleuntil C09
run b6_extend_from_slice C04 C18 C19
echo done >> "$out"
