#!/usr/bin/env python3
"""copies the confirmed seeded changes from /tmp/mut_<prop>/m<i> to /verif/seeded/<prop>-m<i>/ with a meta.json
(which property it breaks, what it needs to manifest, what was run to confirm it, which checks catch it)"""
import glob, json, os, re, shutil

confirm = {}
for f in glob.glob('/verif/work/confirm*.txt'):
    for line in open(f):
        m = re.match(r'CONFIRM /tmp/mut([BCDEF]?)_(C\d+)/m(\d): (.*)', line.strip())
        if m:
            confirm[(m.group(2), {'': 'm', 'B': 'b', 'C': 'c', 'D': 'd', 'E': 'e', 'F': 'f'}[m.group(1)] + m.group(3))] = m.group(4)
detect = {}
order = sorted(glob.glob('/verif/work/mutants*.txt'), key=os.path.getmtime)
for f in order:
    cur = None
    for line in open(f):
        m = re.match(r'### ([BCDEF]?)(C\d+)/m(\d)', line)
        if m:
            cur = (m.group(2), {'': 'm', 'B': 'b', 'C': 'c', 'D': 'd', 'E': 'e', 'F': 'f'}[m.group(1)] + m.group(3))
            continue
        m = re.match(r'(C\d+) (DETECTED|MISSED|SILENT|TOOLERR)(.*)', line)
        if m and cur:
            why = re.search(r'why=(\S+)', m.group(3))
            prev = detect.get(cur, {}).get(m.group(1), {}).get("history", [])
            detect.setdefault(cur, {})[m.group(1)] = {"result": "DETECTED" if m.group(2) == "DETECTED" else m.group(2), "why": why.group(1) if why else "", "run": os.path.basename(f),
                                                      "history": prev + [{"run": os.path.basename(f), "result": m.group(2)}]}
n = 0
for (prop, mi), conf in sorted(confirm.items()):
    src = '/tmp/mut%s_%s/m%s' % ({'m': '', 'b': 'B', 'c': 'C', 'd': 'D', 'e': 'E', 'f': 'F'}[mi[0]], prop, mi[1:])
    if not os.path.exists(src + '/patch.diff'):
        if os.path.exists('/verif/seeded/%s-%s/meta.json' % (prop, mi)):
            mj = json.load(open('/verif/seeded/%s-%s/meta.json' % (prop, mi)))
            mj['checks'].update(detect.get((prop, mi), {}))
            json.dump(mj, open('/verif/seeded/%s-%s/meta.json' % (prop, mi), 'w'), indent=1)
        continue
    ok = 'suite_failed=0' in conf and 'FAILED' in conf.split('|')[1] and 'ok.' in conf.split('|')[2]
    if not ok:
        print("NOT CONFIRMED", prop, mi, conf)
        continue
    dst = '/verif/seeded/%s-%s' % (prop, mi)
    os.makedirs(dst, exist_ok=True)
    for fn in ('patch.diff', 'demo.rs', 'README.txt'):
        shutil.copy(os.path.join(src, fn), os.path.join(dst, fn))
    extra = '/tmp/mut%s_%s/cargo_toml_dev_dep.diff' % ({'m': '', 'b': 'B', 'c': 'C', 'd': 'D', 'e': 'E', 'f': 'F'}[mi[0]], prop)
    if os.path.exists(extra):
        shutil.copy(extra, os.path.join(dst, 'cargo_toml_dev_dep.diff'))
    readme = open(os.path.join(src, 'README.txt')).read()
    meta = {
        "property": prop,
        "id": "%s-%s" % (prop, mi),
        "origin": "fresh sub-agent given only the property text and a scratch worktree of /repo (nothing from /verif)",
        "needs_to_manifest": readme.strip()[:1500],
        "confirmed_by_me": {
            "how": "tools/confirm_mutant.sh in a scratch worktree: git apply patch.diff; cargo test --offline (whole suite); cp demo.rs tests/demo.rs; cargo test --offline --test demo; git checkout; demo again",
            "result": conf,
        },
        "checks": detect.get((prop, mi), {}),
        "applies_to_repo_commit": "97c28c0",
    }
    json.dump(meta, open(os.path.join(dst, 'meta.json'), 'w'), indent=1)
    n += 1
print("imported", n)
