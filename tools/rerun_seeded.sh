#!/bin/bash
# re-runs every seeded change of /verif/seeded against the quick check of its property (and extra checks given in
# seeded/<id>/also.txt), one after the other on /repo; output in the format tools/import_mutants.py reads
out=${1:-/verif/work/mutants_final.txt}
# RESUME=1: keep the output file and skip the changes it already lists
[ -n "$RESUME" ] || : > "$out"
for d in /verif/seeded/C*-*; do
  id=$(basename "$d"); prop=${id%%-*}; mi=${id##*-}
  tag="$prop/m${mi:1}"; [ "${mi:0:1}" = "b" ] && tag="B$prop/m${mi:1}"; [ "${mi:0:1}" = "c" ] && tag="C$prop/m${mi:1}"; [ "${mi:0:1}" = "d" ] && tag="D$prop/m${mi:1}"; [ "${mi:0:1}" = "e" ] && tag="E$prop/m${mi:1}"
  also=""; [ -f "$d/also.txt" ] && also=$(cat "$d/also.txt")
  if [ -n "$RESUME" ] && grep -q "^### $tag\$" "$out"; then continue; fi
  echo "### $tag" >> "$out"
  /verif/bin/mutant "$d/patch.diff" $prop $also 2>&1 | tail -4 >> "$out"
done
echo done >> "$out"
