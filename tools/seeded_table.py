#!/usr/bin/env python3
"""writes /verif/seeded/TABLE.md from seeded/*/meta.json and seeded/first_pass_notes.json:
one row per seeded change: what it is, which checks report it (with the conjunct named in the first VIOLATION
line), and whether a check missed it when first run against it"""
import glob, json, os, re

notes = json.load(open('/verif/seeded/first_pass_notes.json'))
rows = []
stats = {"total": 0, "detected_by_own": 0, "first_pass_missed": 0}
for d in sorted(glob.glob('/verif/seeded/C*-*')):
    m = json.load(open(d + '/meta.json'))
    sid = m['id']
    txt = ' '.join(m['needs_to_manifest'].split())
    # first sentence-ish: up to 170 chars
    txt = re.sub(r'^(C\d+ ?/ ?(second wave|wave \d|third wave)? ?/? ?m\d ?(--|-|:)? ?)', '', txt)
    what = txt[:170].replace('|', '/')
    own = m['checks'].get(m['property'], {})
    det = []
    for c, r in sorted(m['checks'].items()):
        det.append("%s %s%s" % (c, r['result'], (" (" + r['why'][:70] + ")") if r.get('why') and r['result'] == 'DETECTED' else ""))
    fp = notes.get(sid)
    stats["total"] += 1
    if own.get('result') == 'DETECTED':
        stats["detected_by_own"] += 1
    if fp:
        stats["first_pass_missed"] += 1
    rows.append("| %s | %s | %s | %s |" % (sid, what, '; '.join(det) or 'not run yet', ("missed by %s at first; %s" % (fp['missed_by'], fp['strengthened'])) if fp else ""))
with open('/verif/seeded/TABLE.md', 'w') as f:
    f.write("# Seeded changes and the checks that report them\n\n")
    f.write("`<prop>-mN`: first wave, `-bN`: second wave, `-cN`: third wave, `-dN`: fourth wave, `-eN`: fifth wave, `-fN`: sixth wave (each by a fresh sub-agent that saw only the property text).\n")
    f.write("Every change compiles, passes the 46 tests of the repository, and fails its own demo (confirmed by tools/confirm_mutant.sh).\n")
    f.write("Results are those of the last run of `bin/mutant` on /repo (tools/rerun_seeded.sh); the sixth wave was run with `bin/devmutantN` on scratch worktrees of /repo (same check code, several changes side by side).\n\n")
    f.write("%d changes; %d reported by the check of the property they were written against; %d were missed by that check when it first ran against them (last column: what was strengthened).\n\n" % (stats["total"], stats["detected_by_own"], stats["first_pass_missed"]))
    f.write("| id | change (from the author's README) | checks run against it | first pass |\n|---|---|---|---|\n")
    f.write('\n'.join(rows) + '\n')
print(stats)
