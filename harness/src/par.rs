//! Drivers for seq_io::parallel. Records per-thread event logs at the vsync! hook points (no
//! cross-thread order is guessed: each thread's log is in its own program order), can force a
//! schedule printed by TLC with a baton, and records what the consumer observed. No oracle.
use crate::gen::Rng;
use crate::util::*;
use seq_io::parallel::{self, read_parallel_init};
use serde_json::{json, Value};
use std::collections::HashMap;
use std::sync::atomic::{AtomicBool, AtomicI64, AtomicU64, Ordering};
use std::sync::{Arc, Condvar, Mutex};
use std::thread::ThreadId;

// ------------------------------------------------------------------------------------------
// per-thread logs

#[derive(Default)]
struct Rec {
    names: HashMap<ThreadId, String>,
    logs: Vec<(String, Vec<Value>)>,
    nworkers: usize,
}
impl Rec {
    fn log(&mut self, class: char, ev: Value) {
        let id = std::thread::current().id();
        let name = match self.names.get(&id) {
            Some(n) => n.clone(),
            None => {
                let n = if class == 'W' {
                    self.nworkers += 1;
                    format!("W{}", self.nworkers)
                } else {
                    class.to_string()
                };
                self.names.insert(id, n.clone());
                self.logs.push((n.clone(), vec![]));
                n
            }
        };
        self.logs.iter_mut().find(|(n, _)| *n == name).unwrap().1.push(ev);
    }
}
type Shared = Arc<Mutex<Rec>>;

struct Counters {
    filled: AtomicI64,
    received: AtomicI64,
    max_ahead: AtomicI64,
    jobs_started: AtomicI64,
    jobs_finished: AtomicI64,
    returned: AtomicBool,
    late: AtomicI64,
    rng: AtomicU64,
    jitter: AtomicBool,
    /// consumer calls / calls whose output does not belong to the record (counted in every run, judged in long runs)
    ncalls: AtomicI64,
    nbad: AtomicI64,
    /// data sets the reader thread has taken from the queue of empty sets (hook R.recv.got) and the largest lead of
    /// that count over the results the consumer has received (hook C.recv.ok)
    got: AtomicI64,
    max_lead: AtomicI64,
    /// largest RecordSet::buf_capacity() the consumer has seen (read_parallel runs)
    maxsetcap: AtomicI64,
    /// results delivered by a next() call made after the end marker had been received
    again_some: AtomicI64,
    /// records read from the reader before it was handed to the parallel function (-1: not judged), BufferLimit met
    pre: AtomicI64,
    prelim: AtomicBool,
}
impl Counters {
    fn new(seed: u64, jitter: bool) -> Counters {
        Counters {
            filled: AtomicI64::new(0),
            received: AtomicI64::new(0),
            max_ahead: AtomicI64::new(0),
            jobs_started: AtomicI64::new(0),
            jobs_finished: AtomicI64::new(0),
            returned: AtomicBool::new(false),
            late: AtomicI64::new(0),
            rng: AtomicU64::new(seed | 1),
            jitter: AtomicBool::new(jitter),
            ncalls: AtomicI64::new(0),
            nbad: AtomicI64::new(0),
            got: AtomicI64::new(0),
            max_lead: AtomicI64::new(0),
            maxsetcap: AtomicI64::new(0),
            again_some: AtomicI64::new(0),
            pre: AtomicI64::new(0),
            prelim: AtomicBool::new(false),
        }
    }
    fn jitter(&self) {
        if !self.jitter.load(Ordering::Relaxed) {
            return;
        }
        let r = self.rng.fetch_add(0x9E3779B97F4A7C15, Ordering::Relaxed);
        let mut z = r;
        z = (z ^ (z >> 30)).wrapping_mul(0xBF58476D1CE4E5B9);
        z = (z ^ (z >> 27)).wrapping_mul(0x94D049BB133111EB);
        z ^= z >> 31;
        match z % 10 {
            0 => std::thread::sleep(std::time::Duration::from_micros(z % 400)),
            1 | 2 | 3 => std::thread::yield_now(),
            _ => {}
        }
    }
}

// ------------------------------------------------------------------------------------------
// steering baton: a TLC schedule is a list of (thread class, action, data set)

struct Baton {
    sched: Vec<(String, String, usize)>,
    cur: usize,
    diverged: Option<String>,
    on: bool,
}
static BATON: Mutex<Baton> = Mutex::new(Baton { sched: Vec::new(), cur: 0, diverged: None, on: false });
static BCV: Condvar = Condvar::new();
thread_local! { static CUR_D: std::cell::Cell<usize> = const { std::cell::Cell::new(0) }; }
const GATE_TIMEOUT_MS: u64 = 300;

fn gate(t: &str, a: &str, d: usize) {
    let mut b = BATON.lock().unwrap();
    if !b.on {
        return;
    }
    let deadline = std::time::Instant::now() + std::time::Duration::from_millis(GATE_TIMEOUT_MS);
    loop {
        if b.diverged.is_some() {
            return;
        }
        if b.cur < b.sched.len() {
            let e = &b.sched[b.cur];
            if e.0 == t && e.1 == a && (e.2 == d || d == 0 || e.2 == 0) {
                return;
            }
        }
        let now = std::time::Instant::now();
        if now >= deadline {
            let c = b.cur;
            let want = b.sched.get(c).cloned();
            b.diverged = Some(format!("{}:{}:{} waited at cursor {} for {:?}", t, a, d, c, want));
            BCV.notify_all();
            return;
        }
        b = BCV.wait_timeout(b, deadline - now).unwrap().0;
    }
}
fn done(t: &str, a: &str) {
    let mut b = BATON.lock().unwrap();
    if !b.on || b.diverged.is_some() {
        return;
    }
    if b.cur < b.sched.len() && b.sched[b.cur].0 == t && b.sched[b.cur].1 == a {
        b.cur += 1;
        BCV.notify_all();
    } else {
        let c = b.cur;
        let want = b.sched.get(c).cloned();
        b.diverged = Some(format!("done({},{}) at cursor {} expecting {:?}", t, a, c, want));
        BCV.notify_all();
    }
}

fn install_hook(sh: &Shared, ct: &Arc<Counters>) {
    let h = sh.clone();
    let c = ct.clone();
    seq_io::verif::set_hook(Some(Arc::new(move |p: &'static str, after: bool| {
        c.jitter();
        if c.returned.load(Ordering::SeqCst) {
            c.late.fetch_add(1, Ordering::SeqCst);
        }
        match (p, after) {
            ("R.recv", false) => gate("R", "recv", 0),
            ("R.recv.got", true) => {
                let g = c.got.fetch_add(1, Ordering::SeqCst) + 1;
                c.max_lead.fetch_max(g - c.received.load(Ordering::SeqCst), Ordering::SeqCst);
                done("R", "recv")
            }
            ("R.recv.closed", true) => done("R", "recv"),
            ("R.senderr", false) => gate("R", "senderr", 0),
            ("R.senderr", true) => done("R", "senderr"),
            ("R.join", false) => gate("R", "join", 0),
            ("R.join", true) => done("R", "join"),
            ("R.sendend", false) => gate("R", "sendend", 0),
            ("R.sendend", true) => done("R", "sendend"),
            ("W.work", false) => {
                c.jobs_started.fetch_add(1, Ordering::SeqCst);
            }
            ("W.send", false) => gate("W", "send", CUR_D.with(|c| c.get())),
            ("W.send", true) => {
                c.jobs_finished.fetch_add(1, Ordering::SeqCst);
                done("W", "send")
            }
            ("C.recv", false) => gate("C", "recv", 0),
            ("C.recv.ok", true) => {
                c.received.fetch_add(1, Ordering::SeqCst);
                done("C", "recv")
            }
            ("C.recycle", false) => gate("C", "recycle", 0),
            ("C.recycle", true) => done("C", "recycle"),
            ("C.drop", false) => gate("C", "drop", 0),
            ("C.drop", true) => done("C", "drop"),
            ("C.join", false) => gate("C", "join", 0),
            ("C.join", true) => done("C", "join"),
            _ => {}
        }
        if after {
            let cl = p.chars().next().unwrap();
            h.lock().unwrap().log(cl, json!({"p": p}));
        }
    })));
}

// ------------------------------------------------------------------------------------------
// generic read_parallel_init with a scripted reader and tagged data sets

struct DS {
    id: usize,
    fill: usize,
    out: usize,
}
struct Script {
    n: usize,
    err_at: usize,
    filled: usize,
    sh: Shared,
    ct: Arc<Counters>,
}
impl parallel::Reader for Script {
    type DataSet = DS;
    type Err = String;
    fn fill_data(&mut self, d: &mut DS) -> Option<Result<(), String>> {
        gate("R", "fill", d.id);
        let r = if self.err_at == self.filled + 1 {
            self.filled += 1;
            Some(Err("boom".to_string()))
        } else if self.filled >= self.n {
            None
        } else {
            self.filled += 1;
            d.fill = self.filled;
            let f = self.ct.filled.fetch_add(1, Ordering::SeqCst) + 1;
            let ahead = f - self.ct.received.load(Ordering::SeqCst);
            self.ct.max_ahead.fetch_max(ahead, Ordering::SeqCst);
            Some(Ok(()))
        };
        let kind = match &r {
            None => "none",
            Some(Ok(())) => "ok",
            Some(Err(_)) => "err",
        };
        self.sh.lock().unwrap().log('R', json!({"p": "fill", "d": d.id, "kind": kind, "k": self.filled}));
        done("R", "fill");
        r
    }
}
#[derive(Debug)]
enum E {
    R(String),
    D(String),
}
struct ER(String);
struct ED(String);
impl From<ER> for E {
    fn from(e: ER) -> E {
        E::R(e.0)
    }
}
impl From<ED> for E {
    fn from(e: ED) -> E {
        E::D(e.0)
    }
}
struct RecvGuard;
impl Drop for RecvGuard {
    fn drop(&mut self) {
        if std::thread::panicking() {
            done("C", "recv");
        }
    }
}

#[derive(Clone)]
pub struct PCfg {
    pub nw: u32,
    pub q: usize,
    pub n: usize,
    pub err_at: usize,
    pub stop_after: usize,
    pub rinit_fail: bool,
    pub dinit_fail_at: usize,
}
impl PCfg {
    fn parse(c: &Value) -> PCfg {
        PCfg {
            nw: c["NW"].as_u64().unwrap_or(1) as u32,
            q: c["Q"].as_u64().unwrap_or(1) as usize,
            n: c["NSets"].as_u64().unwrap_or_else(|| c["Sizes"].as_array().map(|a| a.len() as u64).unwrap_or(0)) as usize,
            err_at: c["ErrAt"].as_u64().unwrap_or(0) as usize,
            stop_after: c["StopAfter"].as_u64().unwrap_or(99) as usize,
            rinit_fail: c["RInitFail"].as_bool().unwrap_or(false),
            dinit_fail_at: c["DInitFailAt"].as_u64().unwrap_or(0) as usize,
        }
    }
    fn json(&self) -> Value {
        json!({"NW": self.nw, "Q": self.q, "Sizes": vec![1; self.n], "ErrAt": self.err_at, "StopAfter": self.stop_after,
               "RInitFail": self.rinit_fail, "DInitFailAt": self.dinit_fail_at, "RDInitFailAt": 0, "PerRecord": false})
    }
}

/// one run of read_parallel_init; returns None if it hung (watchdog)
fn run_generic(c: &PCfg, seed: u64, jit: bool) -> Value {
    let sh: Shared = Arc::new(Mutex::new(Rec::default()));
    let ct = Arc::new(Counters::new(seed, jit));
    install_hook(&sh, &ct);
    let (s1, s2, s3, s4) = (sh.clone(), sh.clone(), sh.clone(), sh.clone());
    let ct1 = ct.clone();
    let c2 = c.clone();
    let (tx, rx) = std::sync::mpsc::channel();
    let runner = std::thread::spawn(move || {
        let c = c2;
        let mut nds = 0usize;
        let (n, err_at, rinit_fail, dinit_fail_at, stop_after) = (c.n, c.err_at, c.rinit_fail, c.dinit_fail_at, c.stop_after);
        let res = std::panic::catch_unwind(std::panic::AssertUnwindSafe(|| {
            read_parallel_init::<Script, E, _, ER, usize, _, ED, _, _, Vec<Value>>(
                c.nw,
                c.q,
                move || {
                    gate("R", "init", 0);
                    let r = if rinit_fail { Err(ER("rinit".into())) } else { Ok(Script { n, err_at, filled: 0, sh: s1, ct: ct1 }) };
                    done("R", "init");
                    r
                },
                move || {
                    gate("C", "dsinit", nds + 1);
                    nds += 1;
                    let ok = dinit_fail_at != nds;
                    s2.lock().unwrap().log('C', json!({"p": "dsinit", "id": nds, "ok": ok}));
                    done("C", "dsinit");
                    if ok {
                        Ok(DS { id: nds, fill: 0, out: 0 })
                    } else {
                        Err(ED("dinit".into()))
                    }
                },
                move |d: &mut DS| {
                    gate("W", "work", d.id);
                    CUR_D.with(|c| c.set(d.id));
                    d.out = d.fill * 10;
                    s3.lock().unwrap().log('W', json!({"p": "work", "d": d.id, "fill": d.fill, "out": d.out}));
                    done("W", "work");
                    d.out
                },
                move |rsets| {
                    let mut got: Vec<Value> = vec![];
                    let mut ended = false;
                    while got.len() < stop_after {
                        let guard = RecvGuard;
                        let r = rsets.next();
                        std::mem::forget(guard);
                        let ev = match r {
                            None => json!({"p": "got", "kind": "end"}),
                            Some(Err(_)) => json!({"p": "got", "kind": "err"}),
                            Some(Ok((d, o))) => json!({"p": "got", "kind": "ok", "d": d.id, "fill": d.fill, "out": o}),
                        };
                        let end = ev["kind"] == "end";
                        if ev["kind"] != "ok" {
                            done("C", "recv");
                        }
                        s4.lock().unwrap().log('C', ev.clone());
                        got.push(ev);
                        if end {
                            ended = true;
                            break;
                        }
                    }
                    if !ended {
                        gate("C", "stop", 0);
                        done("C", "stop");
                    }
                    s4.lock().unwrap().log('C', json!({"p": "stop"}));
                    got
                },
            )
        }));
        let _ = tx.send(res);
    });
    let res = rx.recv_timeout(std::time::Duration::from_secs(30));
    let (result, got) = match res {
        Err(_) => ("hang".to_string(), vec![]),
        Ok(Err(_)) => ("panic".to_string(), vec![]),
        Ok(Ok(Ok(g))) => ("ok".into(), g),
        Ok(Ok(Err(E::R(_)))) => ("err_rinit".into(), vec![]),
        Ok(Ok(Err(E::D(_)))) => ("err_dinit".into(), vec![]),
    };
    ct.returned.store(true, Ordering::SeqCst);
    if result != "hang" {
        let _ = runner.join();
        std::thread::sleep(std::time::Duration::from_millis(1));
    }
    seq_io::verif::set_hook(None);
    let g = sh.lock().unwrap();
    // consumer observations are also part of the C log (kind "got"); `got` here is what func returned
    let nds = g.logs.iter().find(|(n, _)| n == "C").map(|(_, e)| e.iter().filter(|v| v["p"] == "dsinit").count()).unwrap_or(0);
    json!({
        "cfg": c.json(), "result": result,
        "logs": g.logs.iter().map(|(n, e)| json!({"t": n, "ev": e})).collect::<Vec<_>>(),
        "obs": {"got": got, "nds": nds, "max_ahead": ct.max_ahead.load(Ordering::SeqCst),
                "jobs_started": ct.jobs_started.load(Ordering::SeqCst), "jobs_finished": ct.jobs_finished.load(Ordering::SeqCst),
                "late_events": ct.late.load(Ordering::SeqCst)}
    })
}

pub fn cmd_record(cfgs: &Value, out: &str, seed: u64, reps: usize) {
    let mut runs = vec![];
    let mut s = seed.wrapping_mul(7919) + 1;
    let mut hang = false;
    'outer: for c in cfgs.as_array().unwrap() {
        let pc = PCfg::parse(c);
        for _ in 0..reps {
            s = s.wrapping_add(1);
            let r = run_generic(&pc, s, true);
            let h = r["result"] == "hang";
            runs.push(r);
            if h {
                hang = true;
                break 'outer;
            }
        }
    }
    std::fs::write(out, serde_json::to_string(&runs).unwrap()).unwrap();
    println!("{{\"runs\":{},\"hang\":{}}}", runs.len(), hang);
    if hang {
        std::process::exit(3);
    }
}

pub fn cmd_steer(path: &str, out: &str) {
    let text = std::fs::read_to_string(path).unwrap();
    let (mut n, mut followed, mut diverged, mut same_obs) = (0, 0, 0, 0);
    let mut runs = vec![];
    let mut hang = false;
    for line in text.lines() {
        if line.trim().is_empty() {
            continue;
        }
        let v: Value = serde_json::from_str(line).unwrap();
        let pc = PCfg::parse(&v["cfg"]);
        let sched: Vec<(String, String, usize)> = v["sched"].as_array().unwrap().iter().map(|e| (e["t"].as_str().unwrap().to_string(), e["a"].as_str().unwrap().to_string(), e["d"].as_u64().unwrap() as usize)).collect();
        {
            let mut b = BATON.lock().unwrap();
            b.sched = sched;
            b.cur = 0;
            b.diverged = None;
            b.on = true;
        }
        let mut r = run_generic(&pc, 1, false);
        let (div, cur, len) = {
            let mut b = BATON.lock().unwrap();
            b.on = false;
            (b.diverged.clone(), b.cur, b.sched.len())
        };
        n += 1;
        let got: Vec<Value> = r["obs"]["got"].as_array().unwrap().iter().map(|e| if e["kind"] == "ok" { json!({"t": "ok", "fill": e["fill"], "setout": e["out"], "d": e["d"]}) } else { json!({"t": e["kind"]}) }).collect();
        let exp: Vec<Value> = v["got"].as_array().unwrap().iter().map(|e| if e["t"] == "ok" { json!({"t": "ok", "fill": e["fill"], "setout": e["setout"], "d": e["d"]}) } else if e["t"] == "closed" { json!({"t": "end"}) } else { json!({"t": e["t"]}) }).collect();
        let fol = div.is_none() && cur == len;
        if fol {
            followed += 1;
        } else {
            diverged += 1;
        }
        let same = Value::Array(got) == Value::Array(exp) && r["result"] == v["result"];
        if same {
            same_obs += 1;
        }
        r["steer"] = json!({"followed": fol, "cursor": cur, "len": len, "diverged": div.clone().unwrap_or_default(), "same_obs": same, "expected_got": v["got"], "expected_result": v["result"]});
        let h = r["result"] == "hang";
        runs.push(r);
        if h {
            hang = true;
            break;
        }
    }
    std::fs::write(out, serde_json::to_string(&runs).unwrap()).unwrap();
    println!("{{\"runs\":{},\"followed\":{},\"diverged\":{},\"same_obs\":{},\"hang\":{}}}", n, followed, diverged, same_obs, hang);
    if hang {
        std::process::exit(3);
    }
}

// ------------------------------------------------------------------------------------------
// the public per-record / record-set entry points on real readers

struct RecOut {
    head: Vec<u8>,
    n: usize,
    stale: bool,
}
/// per-record outputs made by `Default::default()` (the entry points without initialiser closures): counted per run
static RECOUT_DEFAULTS: AtomicI64 = AtomicI64::new(0);
impl Default for RecOut {
    fn default() -> RecOut {
        RECOUT_DEFAULTS.fetch_add(1, Ordering::SeqCst);
        RecOut { head: vec![], n: 0, stale: false }
    }
}

#[derive(Debug)]
enum ApiErr {
    Fasta(seq_io::fasta::Error),
    Fastq(seq_io::fastq::Error),
    RInit,
    RecInit,
    SetInit,
}
impl From<seq_io::fasta::Error> for ApiErr {
    fn from(e: seq_io::fasta::Error) -> ApiErr {
        ApiErr::Fasta(e)
    }
}
impl From<seq_io::fastq::Error> for ApiErr {
    fn from(e: seq_io::fastq::Error) -> ApiErr {
        ApiErr::Fastq(e)
    }
}
struct ERi;
struct ERec;
struct ESet;
impl From<ERi> for ApiErr {
    fn from(_: ERi) -> ApiErr {
        ApiErr::RInit
    }
}
impl From<ERec> for ApiErr {
    fn from(_: ERec) -> ApiErr {
        ApiErr::RecInit
    }
}
impl From<ESet> for ApiErr {
    fn from(_: ESet) -> ApiErr {
        ApiErr::SetInit
    }
}

fn api_err_json(e: &ApiErr) -> String {
    match e {
        ApiErr::Fasta(e) => crate::reader::fa::err_json(e),
        ApiErr::Fastq(e) => crate::reader::fq::err_json(e),
        ApiErr::RInit => "{\"k\":\"err_rinit\"}".into(),
        ApiErr::RecInit => "{\"k\":\"err_recinit\"}".into(),
        ApiErr::SetInit => "{\"k\":\"err_setinit\"}".into(),
    }
}

/// a source that hands out at most `chunk` bytes per read call (0: as much as asked for)
pub struct Chunked {
    inner: std::io::Cursor<Vec<u8>>,
    chunk: usize,
    /// > 0: the read call that would deliver the byte at this offset (1-based) fails instead, with this kind
    fail_at: usize,
    kind: std::io::ErrorKind,
}
impl Chunked {
    fn new(x: Vec<u8>, chunk: usize) -> Chunked {
        Chunked { inner: std::io::Cursor::new(x), chunk, fail_at: 0, kind: std::io::ErrorKind::Other }
    }
    fn failing(x: Vec<u8>, chunk: usize, fail_at: usize, kind: &str) -> Chunked {
        Chunked { inner: std::io::Cursor::new(x), chunk, fail_at, kind: crate::source::kind_of(kind) }
    }
}
impl std::io::Seek for Chunked {
    fn seek(&mut self, to: std::io::SeekFrom) -> std::io::Result<u64> {
        self.inner.seek(to)
    }
}
impl std::io::Read for Chunked {
    fn read(&mut self, buf: &mut [u8]) -> std::io::Result<usize> {
        let mut n = if self.chunk == 0 { buf.len() } else { buf.len().min(self.chunk) };
        if self.fail_at > 0 {
            let pos = self.inner.position() as usize;
            if pos + 1 >= self.fail_at {
                return Err(std::io::Error::from(self.kind));
            }
            n = n.min(self.fail_at - 1 - pos);
        }
        self.inner.read(&mut buf[..n])
    }
}

#[derive(Clone)]
pub struct ApiCase {
    pub api: String,
    pub fmt: String,
    pub x: Vec<u8>,
    pub cap: usize,
    pub nw: u32,
    pub q: usize,
    pub stop_after: usize, // consumer returns Some(..) at the k-th record (0 = never)
    pub rinit_fail: bool,
    pub recinit_fail_at: usize,
    pub setinit_fail_at: usize,
    pub slow_consumer: bool,
    /// the data-set initialiser takes 2 ms per call (the reader thread may then have finished - after an initialisation
    /// failure or an empty input - before the calling thread hands out the first data sets)
    pub slow_setinit: bool,
    /// long input (many batches, large recycled vectors): consumer calls are not logged, only counted
    pub big: bool,
    /// bytes per read call of the source (0 = unlimited)
    pub chunk: usize,
    /// > 0: the source fails when the byte at this 1-based offset is due, with error kind `iokind`
    pub iofail: usize,
    pub iokind: String,
    /// > 0: the reader has a history when it is handed over (see mk_reader)
    pub prehist: usize,
    /// for long inputs: what the input consists of, [kind, n]: kind 0 = n records with one base, kind 1 = one record with n bases
    pub pattern: Vec<(usize, usize)>,
}

/// The reader handed to the parallel functions. With `prehist` > 0 it has a history: it was created with a policy that
/// permits no growth, up to `prehist` records were read from it one by one - stopping at a BufferLimit error -, and the
/// default policy was installed before the hand-over. Returns the number of records consumed (-1: the history ended in
/// another error or at the end of the input; such runs are not judged) and whether BufferLimit was met.
/// `prehist` >= 1000 is the *seek history*: prehist = 1000 * s + n. The reader (default policy) reads up to n records one by
/// one (it may reach the end of the input), then seeks back to the position it reported for the j-th of them
/// (j = 1 + (s - 1) mod number read) and is handed over standing before that record: the number returned is j - 1.
macro_rules! mk_reader {
    ($fname:ident, $m:ident, $pos:expr) => {
        fn $fname(x: Vec<u8>, chunk: usize, iofail: usize, iokind: &str, cap: usize, prehist: usize) -> (seq_io::$m::Reader<Chunked>, i64, bool) {
            let src = Chunked::failing(x, chunk, iofail, iokind);
            if prehist == 0 {
                return (seq_io::$m::Reader::with_capacity(src, cap), 0, false);
            }
            if prehist >= 1000 {
                let (s, n) = (prehist / 1000, prehist % 1000);
                let mut r0 = seq_io::$m::Reader::with_capacity(src, cap);
                let mut positions = vec![];
                while positions.len() < n {
                    match r0.next() {
                        Some(Ok(_)) => {}
                        None => break,
                        _ => return (r0, -1, false),
                    }
                    positions.push($pos(&r0));
                }
                if positions.is_empty() {
                    return (r0, -1, false);
                }
                let j = 1 + (s - 1) % positions.len();
                if r0.seek(&positions[j - 1]).is_err() {
                    return (r0, -1, false);
                }
                return (r0, j as i64 - 1, false);
            }
            let mut r0 = seq_io::$m::Reader::with_capacity(src, cap).set_policy(seq_io::policy::DoubleUntilLimited::new(8, cap));
            let mut pre = 0i64;
            let mut lim = false;
            while (pre as usize) < prehist {
                match r0.next() {
                    Some(Ok(_)) => pre += 1,
                    Some(Err(seq_io::$m::Error::BufferLimit)) => {
                        lim = true;
                        break;
                    }
                    _ => {
                        pre = -1;
                        break;
                    }
                }
            }
            (r0.set_policy(seq_io::policy::StdPolicy), pre, lim)
        }
    };
}
mk_reader!(mk_reader_fasta, fasta, |r: &seq_io::fasta::Reader<Chunked>| r.position().unwrap().clone());
mk_reader!(mk_reader_fastq, fastq, |r: &seq_io::fastq::Reader<Chunked>| r.position().clone());

macro_rules! api_runner {
    ($fname:ident, $m:ident, $pfn:ident, $pinit:ident, $recjson:path, $variant:ident, $mk:ident) => {
        fn $fname(c: &ApiCase, ct: &Arc<Counters>, calls: &Arc<Mutex<Vec<String>>>, works: &Arc<Mutex<Vec<String>>>, ninit: &Arc<(AtomicI64, AtomicI64)>) -> String {
            use seq_io::$m::Record as _;
            let x = c.x.clone();
            let chunk = c.chunk;
            let (iofail, iokind) = (c.iofail, c.iokind.clone());
            let prehist = c.prehist;
            let ctp = ct.clone();
            let cap = c.cap;
            let stop_after = c.stop_after;
            let slow = c.slow_consumer;
            let big = c.big;
            let ct2 = ct.clone();
            let calls2 = calls.clone();
            let works2 = works.clone();
            let mut ncalls = 0usize;
            let work = move |rec: seq_io::$m::RefRecord, d: &mut RecOut, tag: &mut i64| {
                if !big {
                    ct2.jitter();
                }
                d.stale = false;
                d.head = rec.head().to_vec();
                d.n = rec.seq().len();
                if !big {
                    works2.lock().unwrap().push(format!("{{\"tag\":{},\"head\":{}}}", tag, jb(rec.head())));
                }
            };
            let ct3 = ct.clone();
            let func = move |rec: seq_io::$m::RefRecord, d: &mut RecOut, tag: &mut i64| -> Option<usize> {
                if slow {
                    ct3.jitter();
                }
                ncalls += 1;
                ct3.ncalls.fetch_add(1, Ordering::SeqCst);
                if d.stale || d.head != rec.head() || d.n != rec.seq().len() {
                    ct3.nbad.fetch_add(1, Ordering::SeqCst);
                }
                if !big {
                    calls2.lock().unwrap().push(format!(
                        "{{\"rec\":{},\"out\":{{\"head\":{},\"n\":{},\"stale\":{}}},\"rawlen\":{},\"tag\":{}}}",
                        $recjson(&rec, false, false),
                        jb(&d.head),
                        d.n,
                        d.stale,
                        rec.seq().len(),
                        tag
                    ));
                }
                // mark the output as consumed: a result delivered twice or not recomputed shows up as stale
                d.stale = true;
                if stop_after > 0 && ncalls >= stop_after {
                    Some(ncalls)
                } else {
                    None
                }
            };
            if c.api.ends_with("_init") {
                let rfail = c.rinit_fail;
                let slow_si = c.slow_setinit;
                let (rf, sf) = (c.recinit_fail_at as i64, c.setinit_fail_at as i64);
                let n1 = ninit.clone();
                let n2 = ninit.clone();
                let r: Result<Option<usize>, ApiErr> = parallel::$pinit(
                    c.nw,
                    c.q,
                    move || {
                        if rfail {
                            Err(ERi)
                        } else {
                            let (r, pre, lim) = $mk(x, chunk, iofail, &iokind, cap, prehist);
                            ctp.pre.store(pre, Ordering::SeqCst);
                            ctp.prelim.store(lim, Ordering::SeqCst);
                            Ok(r)
                        }
                    },
                    move || {
                        let k = n1.0.fetch_add(1, Ordering::SeqCst) + 1;
                        if k == rf {
                            Err(ERec)
                        } else {
                            Ok(RecOut::default())
                        }
                    },
                    move || {
                        if slow_si {
                            std::thread::sleep(std::time::Duration::from_millis(2));
                        }
                        let k = n2.1.fetch_add(1, Ordering::SeqCst) + 1;
                        if k == sf {
                            Err(ESet)
                        } else {
                            Ok(k)
                        }
                    },
                    work,
                    func,
                );
                match r {
                    Ok(None) => "{\"k\":\"none\"}".into(),
                    Ok(Some(n)) => format!("{{\"k\":\"some\",\"n\":{}}}", n),
                    Err(e) => api_err_json(&e),
                }
            } else {
                let (reader, pre, lim) = $mk(x, chunk, iofail, &iokind, cap, prehist);
                ctp.pre.store(pre, Ordering::SeqCst);
                ctp.prelim.store(lim, Ordering::SeqCst);
                let mut func = func;
                let r = parallel::$pfn(reader, c.nw, c.q, move |rec: seq_io::$m::RefRecord, d: &mut RecOut| work(rec, d, &mut 0), move |rec: seq_io::$m::RefRecord, d: &mut RecOut| func(rec, d, &mut 0));
                match r {
                    Ok(None) => "{\"k\":\"none\"}".into(),
                    Ok(Some(n)) => format!("{{\"k\":\"some\",\"n\":{}}}", n),
                    Err(e) => api_err_json(&ApiErr::$variant(e)),
                }
            }
        }
    };
}
api_runner!(run_api_fasta, fasta, parallel_fasta, parallel_fasta_init, crate::reader::fa::rec_json, Fasta, mk_reader_fasta);
api_runner!(run_api_fastq, fastq, parallel_fastq, parallel_fastq_init, crate::reader::fq::rec_json, Fastq, mk_reader_fastq);

macro_rules! sets_runner {
    ($fname:ident, $m:ident, $recjson:path, $variant:ident, $mk:ident) => {
        /// read_parallel with the real reader as parallel::Reader: the consumer sees whole record sets
        fn $fname(c: &ApiCase, ct: &Arc<Counters>, calls: &Arc<Mutex<Vec<String>>>) -> String {
            use seq_io::$m::Record as _;
            let (reader, pre, lim) = $mk(c.x.clone(), c.chunk, c.iofail, &c.iokind, c.cap, c.prehist);
            ct.pre.store(pre, Ordering::SeqCst);
            ct.prelim.store(lim, Ordering::SeqCst);
            let ct2 = ct.clone();
            let ct3 = ct.clone();
            let big = c.big;
            let stop_after = c.stop_after;
            let calls2 = calls.clone();
            let r: Result<Option<usize>, seq_io::$m::Error> = parallel::read_parallel(
                reader,
                c.nw,
                c.q,
                move |set: &mut seq_io::$m::RecordSet| {
                    if !big {
                        ct2.jitter();
                    }
                    // worker output: (head, raw seq length) of every record of this very set
                    set.into_iter().map(|r| (r.head().to_vec(), r.seq().len())).collect::<Vec<_>>()
                },
                move |sets| {
                    let mut nsets = 0usize;
                    while let Some(res) = sets.next() {
                        let (set, out) = match res {
                            Ok(x) => x,
                            Err(e) => return Err(e),
                        };
                        nsets += 1;
                        ct3.maxsetcap.fetch_max(set.buf_capacity() as i64, Ordering::SeqCst);
                        let mut i = 0;
                        for rec in &*set {
                            let (h, n) = out.get(i).cloned().unwrap_or((vec![255], 99999));
                            ct3.ncalls.fetch_add(1, Ordering::SeqCst);
                            if h != rec.head() || n != rec.seq().len() {
                                ct3.nbad.fetch_add(1, Ordering::SeqCst);
                            }
                            if big {
                                i += 1;
                                continue;
                            }
                            calls2.lock().unwrap().push(format!(
                                "{{\"rec\":{},\"out\":{{\"head\":{},\"n\":{},\"stale\":false}},\"rawlen\":{},\"tag\":{}}}",
                                $recjson(&rec, false, false),
                                jb(&h),
                                n,
                                rec.seq().len(),
                                nsets
                            ));
                            i += 1;
                        }
                        if out.len() != i {
                            ct3.nbad.fetch_add(1, Ordering::SeqCst);
                            calls2.lock().unwrap().push("{\"rec\":{\"k\":\"rec\",\"head\":[],\"lines\":[],\"qual\":[]},\"out\":{\"head\":[0],\"n\":0,\"stale\":true},\"rawlen\":-1,\"tag\":-1}".to_string());
                        }
                        if stop_after > 0 && nsets >= stop_after {
                            return Ok(Some(nsets));
                        }
                    }
                    // asking again after the end: the end is final (and the call must not block)
                    if sets.next().is_some() {
                        ct3.again_some.fetch_add(1, Ordering::SeqCst);
                    }
                    Ok(None)
                },
            );
            match r {
                Ok(None) => "{\"k\":\"none\"}".into(),
                Ok(Some(n)) => format!("{{\"k\":\"some\",\"n\":{}}}", n),
                Err(e) => api_err_json(&ApiErr::$variant(e)),
            }
        }
    };
}
sets_runner!(run_sets_fasta, fasta, crate::reader::fa::rec_json, Fasta, mk_reader_fasta);
sets_runner!(run_sets_fastq, fastq, crate::reader::fq::rec_json, Fastq, mk_reader_fastq);

macro_rules! records_runner {
    ($fname:ident, $m:ident, $recjson:path, $variant:ident, $mk:ident) => {
        /// parallel_records: the generic per-record function (outputs are passed to the consumer by shared reference)
        fn $fname(c: &ApiCase, ct: &Arc<Counters>, calls: &Arc<Mutex<Vec<String>>>) -> String {
            use seq_io::$m::Record as _;
            let (reader, pre, lim) = $mk(c.x.clone(), c.chunk, c.iofail, &c.iokind, c.cap, c.prehist);
            ct.pre.store(pre, Ordering::SeqCst);
            ct.prelim.store(lim, Ordering::SeqCst);
            let ct2 = ct.clone();
            let ct3 = ct.clone();
            let big = c.big;
            let stop_after = c.stop_after;
            let calls2 = calls.clone();
            let mut ncalls = 0usize;
            let r: Result<Option<usize>, seq_io::$m::Error> = parallel::parallel_records(
                reader,
                c.nw,
                c.q,
                move |rec: seq_io::$m::RefRecord, d: &mut RecOut| {
                    if !big {
                        ct2.jitter();
                    }
                    d.stale = false;
                    d.head = rec.head().to_vec();
                    d.n = rec.seq().len();
                },
                move |rec: seq_io::$m::RefRecord, d: &RecOut| {
                    ncalls += 1;
                    ct3.ncalls.fetch_add(1, Ordering::SeqCst);
                    if d.stale || d.head != rec.head() || d.n != rec.seq().len() {
                        ct3.nbad.fetch_add(1, Ordering::SeqCst);
                    }
                    if big {
                        return None;
                    }
                    calls2.lock().unwrap().push(format!(
                        "{{\"rec\":{},\"out\":{{\"head\":{},\"n\":{},\"stale\":{}}},\"rawlen\":{},\"tag\":0}}",
                        $recjson(&rec, false, false),
                        jb(&d.head),
                        d.n,
                        d.stale,
                        rec.seq().len()
                    ));
                    if stop_after > 0 && ncalls >= stop_after {
                        Some(ncalls)
                    } else {
                        None
                    }
                },
            );
            match r {
                Ok(None) => "{\"k\":\"none\"}".into(),
                Ok(Some(n)) => format!("{{\"k\":\"some\",\"n\":{}}}", n),
                Err(e) => api_err_json(&ApiErr::$variant(e)),
            }
        }
    };
}
records_runner!(run_records_fasta, fasta, crate::reader::fa::rec_json, Fasta, mk_reader_fasta);
records_runner!(run_records_fastq, fastq, crate::reader::fq::rec_json, Fastq, mk_reader_fastq);

fn run_api(c: &ApiCase, seed: u64) -> String {
    RECOUT_DEFAULTS.store(0, Ordering::SeqCst);
    let sh: Shared = Arc::new(Mutex::new(Rec::default()));
    let ct = Arc::new(Counters::new(seed, true));
    install_hook(&sh, &ct);
    let calls = Arc::new(Mutex::new(Vec::<String>::new()));
    let works = Arc::new(Mutex::new(Vec::<String>::new()));
    let ninit = Arc::new((AtomicI64::new(0), AtomicI64::new(0)));
    let (tx, rx) = std::sync::mpsc::channel();
    let (c2, ct2, calls2, works2, ninit2) = (c.clone(), ct.clone(), calls.clone(), works.clone(), ninit.clone());
    let runner = std::thread::spawn(move || {
        let r = std::panic::catch_unwind(std::panic::AssertUnwindSafe(|| match (c2.api.as_str(), c2.fmt.as_str()) {
            ("records", "fasta") => run_records_fasta(&c2, &ct2, &calls2),
            ("records", _) => run_records_fastq(&c2, &ct2, &calls2),
            ("read_parallel", "fasta") => run_sets_fasta(&c2, &ct2, &calls2),
            ("read_parallel", _) => run_sets_fastq(&c2, &ct2, &calls2),
            (_, "fasta") => run_api_fasta(&c2, &ct2, &calls2, &works2, &ninit2),
            _ => run_api_fastq(&c2, &ct2, &calls2, &works2, &ninit2),
        }));
        let _ = tx.send(r);
    });
    let res = rx.recv_timeout(std::time::Duration::from_secs(30));
    let result = match res {
        Err(_) => "{\"k\":\"hang\"}".to_string(),
        Ok(Err(p)) => panic_json(&p),
        Ok(Ok(s)) => s,
    };
    ct.returned.store(true, Ordering::SeqCst);
    let hang = result.contains("\"hang\"");
    if !hang {
        let _ = runner.join();
        std::thread::sleep(std::time::Duration::from_millis(1));
    }
    seq_io::verif::set_hook(None);
    // how sequential record-set reading with the same capacity batches this input (no expectation, just what it does)
    let set_sizes: Vec<usize> = std::panic::catch_unwind(|| {
        let mut v = vec![];
        if c.fmt == "fasta" {
            let (mut r, _, _) = mk_reader_fasta(c.x.clone(), 0, 0, "other", c.cap, c.prehist);
            let mut set = seq_io::fasta::RecordSet::default();
            while let Some(Ok(())) = r.read_record_set(&mut set) {
                v.push(set.len());
                if v.len() > 10000 {
                    break;
                }
            }
        } else {
            let (mut r, _, _) = mk_reader_fastq(c.x.clone(), 0, 0, "other", c.cap, c.prehist);
            let mut set = seq_io::fastq::RecordSet::default();
            while let Some(Ok(())) = r.read_record_set(&mut set) {
                v.push(set.len());
                if v.len() > 10000 {
                    break;
                }
            }
        }
        v
    })
    .unwrap_or_default();
    let g = sh.lock().unwrap();
    let count = |t: &str, p: &str| -> usize { g.logs.iter().filter(|(n, _)| n.starts_with(t)).map(|(_, e)| e.iter().filter(|v| v["p"] == p).count()).sum() };
    let calls_v = calls.lock().unwrap();
    format!(
        "{{\"ev\":\"run\",\"chunk\":{},\"big\":{},\"api\":\"{}\",\"fmt\":\"{}\",\"input\":{},\"cap\":{},\"NW\":{},\"Q\":{},\"stop_after\":{},\"rinit_fail\":{},\"recinit_fail_at\":{},\"setinit_fail_at\":{},\"result\":{},\"set_sizes\":{:?},\"calls\":[{}],\"ncalls\":{},\"nbad\":{},\"lead\":{},\"maxsetcap\":{},\"ndefault\":{},\"again_some\":{},\"pre\":{},\"prelim\":{},\"iofail\":{},\"iokind\":\"{}\",\"nworks\":{},\"nrecinit\":{},\"nsetinit\":{},\"fills_ok\":{},\"senderr\":{},\"sendend\":{},\"recv_ok\":{},\"jobs_started\":{},\"jobs_finished\":{},\"late_events\":{}}}",
        c.chunk,
        c.big,
        c.api,
        c.fmt,
        if c.big { format!("{:?}", c.pattern.iter().map(|p| vec![p.0, p.1]).collect::<Vec<_>>()) } else { jb(&c.x) },
        c.cap,
        c.nw,
        c.q,
        c.stop_after,
        c.rinit_fail,
        c.recinit_fail_at,
        c.setinit_fail_at,
        result,
        set_sizes,
        calls_v.join(","),
        ct.ncalls.load(Ordering::SeqCst),
        ct.nbad.load(Ordering::SeqCst),
        ct.max_lead.load(Ordering::SeqCst),
        ct.maxsetcap.load(Ordering::SeqCst),
        RECOUT_DEFAULTS.load(Ordering::SeqCst),
        ct.again_some.load(Ordering::SeqCst),
        ct.pre.load(Ordering::SeqCst),
        ct.prelim.load(Ordering::SeqCst),
        c.iofail,
        c.iokind,
        works.lock().unwrap().len(),
        ninit.0.load(Ordering::SeqCst),
        ninit.1.load(Ordering::SeqCst),
        count("R", "R.exec"),
        count("R", "R.senderr"),
        count("R", "R.sendend"),
        count("C", "C.recv.ok"),
        ct.jobs_started.load(Ordering::SeqCst),
        ct.jobs_finished.load(Ordering::SeqCst),
        ct.late.load(Ordering::SeqCst)
    )
}

pub fn render_pattern(fmt: &str, pat: &[(usize, usize)]) -> Vec<u8> {
    let mut x = vec![];
    for &(kind, n) in pat {
        if kind == 0 {
            for _ in 0..n {
                x.extend(if fmt == "fasta" { &b">t\nA\n"[..] } else { &b"@t\nA\n+\nI\n"[..] });
            }
        } else {
            x.extend(if fmt == "fasta" { b">L\n" } else { b"@L\n" });
            x.extend(std::iter::repeat(b'A').take(n));
            x.push(b'\n');
            if fmt == "fastq" {
                x.extend(b"+\n");
                x.extend(std::iter::repeat(b'I').take(n));
                x.push(b'\n');
            }
        }
    }
    x
}

/// suite: {"fmt", "n", "apis": [...], "maxrec", ...}: random files through the public entry points
pub fn cmd_api(suite: &Value, out: &str, seed: u64) {
    let fmt = suite["fmt"].as_str().unwrap_or("fasta").to_string();
    let n = suite["n"].as_u64().unwrap_or(100) as usize;
    let apis: Vec<String> = suite["apis"].as_array().map(|a| a.iter().map(|s| s.as_str().unwrap().to_string()).collect()).unwrap_or_else(|| vec!["parallel".into()]);
    let mut rng = Rng::new(seed ^ 0xabcdef);
    let mut f = std::io::BufWriter::new(std::fs::File::create(out).unwrap());
    use std::io::Write;
    let mut hang = false;
    let mut nruns = 0;
    for i in 0..n {
        let x = crate::gen::rand_struct(&mut rng, &fmt, &suite["gen"]);
        let api = apis[i % apis.len()].clone();
        let faults = suite["faults"].as_bool().unwrap_or(false);
        let c = ApiCase {
            api: api.clone(),
            fmt: fmt.clone(),
            cap: *rng.pick(&[3usize, 5, 8, 16, 32, 64]).max(&3),
            nw: if rng.chance(1, 3) { 1 } else { 1 + rng.below(4) as u32 },
            q: 1 + rng.below(4),
            stop_after: if rng.chance(1, 3) { 1 + rng.below(6) } else { 0 },
            rinit_fail: faults && api.ends_with("_init") && rng.chance(1, 8),
            recinit_fail_at: if faults && api.ends_with("_init") && rng.chance(1, 4) { 1 + rng.below(6) } else { 0 },
            setinit_fail_at: if faults && api.ends_with("_init") && rng.chance(1, 5) { 1 + rng.below(5) } else { 0 },
            slow_consumer: rng.chance(1, 3),
            slow_setinit: faults && rng.chance(1, 2),
            big: false,
            chunk: *rng.pick(&[0usize, 0, 0, 1, 7, 100]),
            iofail: 0,
            iokind: "other".into(),
            prehist: 0,
            pattern: vec![],
            x,
        };
        let mut c = c;
        if c.rinit_fail && rng.chance(2, 3) {
            c.slow_setinit = true;
        }
        if suite["focus"].as_str() == Some("recinit") {
            // single worker, per-record API, a record_data_init failure somewhere and an early stop somewhere:
            // which set fails is then determined by the set sizes (see TraceParObs)
            let nrec = c.x.iter().filter(|b| **b == if fmt == "fasta" { b'>' } else { b'@' }).count().max(1);
            c.api = "parallel_init".into();
            c.nw = 1;
            c.rinit_fail = false;
            c.setinit_fail_at = 0;
            c.recinit_fail_at = 1 + rng.below(nrec);
            c.stop_after = if rng.chance(1, 5) { 0 } else { 1 + rng.below(nrec) };
            c.cap = *rng.pick(&[3usize, 8, 12, 16, 24, 32]);
        }
        if suite["focus"].as_str() == Some("prehist") {
            c.rinit_fail = false;
            c.recinit_fail_at = 0;
            c.setinit_fail_at = 0;
            c.prehist = 1 + rng.below(3);
            if i % 2 == 1 {
                // seek history: read up to n records (n up to beyond the end of the input), seek back to one of them
                c.prehist = 1000 * (1 + rng.below(9)) + 1 + rng.below(11);
                c.cap = *rng.pick(&[3usize, 5, 8, 16, 32, 64, 256]);
            }
        }
        if suite["focus"].as_str() == Some("iofail") {
            c.stop_after = 0;
            c.rinit_fail = false;
            c.recinit_fail_at = 0;
            c.setinit_fail_at = 0;
            c.iofail = 1 + rng.below(c.x.len() + 1);
            c.iokind = (*rng.pick(&["other", "permission_denied", "unexpected_eof", "would_block", "timed_out"])).to_string();
        }
        if suite["focus"].as_str() == Some("big") {
            // many tiny records (batches of several hundred records), then a few long ones, repeated: the recycled
            // per-record output vectors are much longer than some later batch
            let mut pat = vec![];
            for _ in 0..3 {
                pat.push((0, 1500 + rng.below(1500)));
                for _ in 0..(3 + rng.below(4)) {
                    pat.push((1, 2500 + rng.below(800)));
                }
            }
            // every fourth long run: records far larger than the buffer (80 to 320 KiB each, capacity 64 KiB)
            let huge = i % 4 == 1;
            if huge {
                pat.clear();
                for _ in 0..(30 + rng.below(20)) {
                    pat.push((1, 80_000 + rng.below(240_000)));
                }
            }
            let x = render_pattern(&fmt, &pat);
            c.pattern = pat;
            c.x = x;
            c.big = true;
            c.chunk = *rng.pick(&[0usize, 1000, 8192]);
            c.api = match i % 4 { 0 => "parallel_init".into(), 1 => "read_parallel".into(), 2 => "records".into(), _ => "parallel".into() };
            c.cap = if huge { 65536 } else { 8192 };
            c.stop_after = 0;
            c.rinit_fail = false;
            c.recinit_fail_at = 0;
            c.setinit_fail_at = 0;
        }
        let line = run_api(&c, seed.wrapping_add(i as u64));
        nruns += 1;
        writeln!(f, "{}", line).unwrap();
        if line.contains("{\"k\":\"hang\"}") {
            hang = true;
            break;
        }
    }
    f.flush().unwrap();
    println!("{{\"runs\":{},\"hang\":{}}}", nruns, hang);
    if hang {
        std::process::exit(3);
    }
}
