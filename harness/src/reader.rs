//! Drivers for the real FASTA and FASTQ readers (shared body in driver_body.rs).

pub mod fa {
    use seq_io::fasta as m;
    use seq_io::fasta::Record as _;
    use std::borrow::Cow;
    pub const FMT: &str = "fasta";

    include!("driver_body.rs");

    fn pos_of(r: &Rdr) -> Option<(u64, u64)> {
        r.position().map(|p| (p.line(), p.byte()))
    }

    /// candidate record starts from the raw bytes: line starts whose first byte is '>'
    fn candidates(x: &[u8]) -> Vec<(u64, u64)> {
        let mut v = vec![];
        let mut line = 1u64;
        let mut at_start = true;
        for (i, b) in x.iter().enumerate() {
            if at_start && *b == b'>' {
                v.push((line, i as u64));
            }
            at_start = *b == b'\n';
            if at_start {
                line += 1;
            }
        }
        v
    }

    fn str_res(r: Result<&str, std::str::Utf8Error>) -> String {
        match r {
            Ok(s) => format!("{{\"ok\":true,\"b\":{}}}", jb(s.as_bytes())),
            Err(_) => "{\"ok\":false,\"b\":[]}".into(),
        }
    }

    fn serde_owned(o: &m::OwnedRecord) -> String {
        let text = serde_json::to_string(o).unwrap();
        let back: m::OwnedRecord = serde_json::from_str(&text).unwrap();
        // the shape of the serialised form (number of fields written) of this record and of a reference record whose fields are
        // all non-empty: formats that are not self-describing read the fields by position
        let nf = |r: &m::OwnedRecord| serde_json::to_value(r).ok().and_then(|v| v.as_object().map(|m| m.len())).unwrap_or(0);
        let reference = m::OwnedRecord { head: vec![b'a'], seq: vec![b'A'] };
        format!("{{\"head\":{},\"seq\":{},\"qual\":[],\"eq\":{},\"nf\":{},\"nf_ref\":{}}}", jb(&back.head), jb(&back.seq), back == *o, nf(o), nf(&reference))
    }

    pub fn owned_json(o: &m::OwnedRecord, serde: bool) -> String {
        let mut s = format!("{{\"k\":\"rec\",\"head\":{},\"lines\":[{}],\"qual\":[]", jb(&o.head), jb(&o.seq));
        if serde {
            s.push_str(&format!(",\"serde\":{}", serde_owned(o)));
        }
        s.push('}');
        s
    }

    pub fn rec_json(r: &m::RefRecord, views: bool, serde: bool) -> String {
        let mut s = format!("{{\"k\":\"rec\",\"head\":{},\"lines\":{},\"qual\":[]", jb(r.head()), jlines(r.seq_lines()));
        if views {
            let full = r.full_seq();
            let borrowed = matches!(full, Cow::Borrowed(_));
            let o = r.to_owned_record();
            let (i2, d2) = r.id_desc_bytes();
            let sl = r.seq_lines();
            let (lo, hi) = sl.size_hint();
            let mut w = vec![];
            r.write(&mut w).unwrap();
            let mut wu = vec![];
            r.write_unchanged(&mut wu).unwrap();
            let mut ww = vec![];
            r.write_wrap(&mut ww, 3).unwrap();
            let mut ow = vec![];
            o.write(&mut ow).unwrap();
            let mut oww = vec![];
            o.write_wrap(&mut oww, 3).unwrap();
            let nl = r.num_seq_lines();
            let opt = |o: Option<&[u8]>| format!("{{\"some\":{},\"item\":{}}}", o.is_some(), jb(o.unwrap_or(b"")));
            let nth: Vec<String> = (0..nl).map(|k| opt(r.seq_lines().nth(k))).collect();
            let nth_back: Vec<String> = (0..nl).map(|k| opt(r.seq_lines().nth_back(k))).collect();
            let mut it = r.seq_lines();
            let past_none = it.nth(nl).is_none();
            let past_len = it.len();
            let past_next_none = it.next().is_none() && it.next_back().is_none();
            s.push_str(&format!(
                ",\"v\":{{\"lines_nth\":[{}],\"lines_nth_back\":[{}],\"nth_past\":{{\"none\":{},\"len\":{},\"next_none\":{}}},\"seq_raw\":{},\"lines_rev\":{},\"nlines\":{},\"len\":{},\"hint\":[{},{}],\"full\":{},\"borrowed\":{},\"owned_seq\":{},\"ohead\":{},\"oseq\":{},\"ohead2\":{},\"oseq2\":{},\"id\":{},\"desc\":{},\"id2\":{},\"desc2\":{},\"oid\":{},\"odesc\":{},\"id_str\":{},\"desc_str\":{},\"id_desc_str\":{},\"w\":{},\"wu\":{},\"ww\":{},\"ow\":{},\"oww\":{}}}",
                nth.join(","),
                nth_back.join(","),
                past_none,
                past_len,
                past_next_none,
                jb(r.seq()),
                jlines(r.seq_lines().rev()),
                r.num_seq_lines(),
                sl.len(),
                lo,
                hi.map(|h| h as i64).unwrap_or(-1),
                jb(&full),
                borrowed,
                jb(&r.owned_seq()),
                jb(&o.head),
                jb(&o.seq),
                jb(o.head()),
                jb(o.seq()),
                jb(r.id_bytes()),
                jopt(r.desc_bytes()),
                jb(i2),
                jopt(d2),
                jb(o.id_bytes()),
                jopt(o.desc_bytes()),
                str_res(r.id()),
                match r.desc() {
                    None => "{\"ok\":true,\"b\":[],\"none\":true}".to_string(),
                    Some(Ok(d)) => format!("{{\"ok\":true,\"b\":{},\"none\":false}}", jb(d.as_bytes())),
                    Some(Err(_)) => "{\"ok\":false,\"b\":[],\"none\":false}".to_string(),
                },
                match r.id_desc() {
                    Ok((i, d)) => format!("{{\"ok\":true,\"id\":{},\"desc\":{}}}", jb(i.as_bytes()), jopt(d.map(|d| d.as_bytes()))),
                    Err(_) => "{\"ok\":false,\"id\":[],\"desc\":[]}".to_string(),
                },
                jb(&w),
                jb(&wu),
                jb(&ww),
                jb(&ow),
                jb(&oww)
            ));
        }
        if serde {
            s.push_str(&format!(",\"serde\":{}", serde_owned(&r.to_owned_record())));
        }
        s.push('}');
        s
    }

    pub fn err_json(e: &m::Error) -> String {
        let msg = jb(format!("{}", e).as_bytes());
        match e {
            m::Error::Io(e) => format!("{{\"k\":\"io\",\"kind\":\"{}\",\"msg\":{}}}", crate::source::kind_name(e.kind()), msg),
            m::Error::InvalidStart { line, found } => format!("{{\"k\":\"invalid_start\",\"line\":{},\"found\":{},\"id\":[],\"msg\":{}}}", line, found, msg),
            m::Error::BufferLimit => format!("{{\"k\":\"buffer_limit\",\"msg\":{}}}", msg),
        }
    }
}

pub mod fq {
    use seq_io::fastq as m;
    use seq_io::fastq::Record as _;
    pub const FMT: &str = "fastq";

    include!("driver_body.rs");

    fn pos_of(r: &Rdr) -> Option<(u64, u64)> {
        let p = r.position();
        Some((p.line(), p.byte()))
    }

    /// candidate record starts from the raw bytes: the start of every fourth line
    fn candidates(x: &[u8]) -> Vec<(u64, u64)> {
        let mut v = vec![];
        let mut line = 1u64;
        if !x.is_empty() {
            v.push((1, 0));
        }
        for (i, b) in x.iter().enumerate() {
            if *b == b'\n' {
                line += 1;
                if line % 4 == 1 && i + 1 < x.len() {
                    v.push((line, i as u64 + 1));
                }
            }
        }
        v
    }

    fn str_res(r: Result<&str, std::str::Utf8Error>) -> String {
        match r {
            Ok(s) => format!("{{\"ok\":true,\"b\":{}}}", jb(s.as_bytes())),
            Err(_) => "{\"ok\":false,\"b\":[]}".into(),
        }
    }

    fn serde_owned(o: &m::OwnedRecord) -> String {
        let text = serde_json::to_string(o).unwrap();
        let back: m::OwnedRecord = serde_json::from_str(&text).unwrap();
        let nf = |r: &m::OwnedRecord| serde_json::to_value(r).ok().and_then(|v| v.as_object().map(|m| m.len())).unwrap_or(0);
        let reference = m::OwnedRecord { head: vec![b'a'], seq: vec![b'A'], qual: vec![b'I'] };
        format!("{{\"head\":{},\"seq\":{},\"qual\":{},\"eq\":{},\"nf\":{},\"nf_ref\":{}}}", jb(&back.head), jb(&back.seq), jb(&back.qual), back == *o, nf(o), nf(&reference))
    }

    pub fn owned_json(o: &m::OwnedRecord, serde: bool) -> String {
        let mut s = format!("{{\"k\":\"rec\",\"head\":{},\"lines\":[{}],\"qual\":{}", jb(&o.head), jb(&o.seq), jb(&o.qual));
        if serde {
            s.push_str(&format!(",\"serde\":{}", serde_owned(o)));
        }
        s.push('}');
        s
    }

    pub fn rec_json(r: &m::RefRecord, views: bool, serde: bool) -> String {
        let mut s = format!("{{\"k\":\"rec\",\"head\":{},\"lines\":[{}],\"qual\":{}", jb(r.head()), jb(r.seq()), jb(r.qual()));
        if views {
            let o = r.to_owned_record();
            let (i2, d2) = r.id_desc_bytes();
            let mut w = vec![];
            r.write(&mut w).unwrap();
            let mut wu = vec![];
            r.write_unchanged(&mut wu).unwrap();
            let mut ow = vec![];
            o.write(&mut ow).unwrap();
            s.push_str(&format!(
                ",\"v\":{{\"ohead\":{},\"oseq\":{},\"oqual\":{},\"ohead2\":{},\"oseq2\":{},\"oqual2\":{},\"id\":{},\"desc\":{},\"id2\":{},\"desc2\":{},\"oid\":{},\"odesc\":{},\"id_str\":{},\"desc_str\":{},\"id_desc_str\":{},\"w\":{},\"wu\":{},\"ow\":{}}}",
                jb(&o.head),
                jb(&o.seq),
                jb(&o.qual),
                jb(o.head()),
                jb(o.seq()),
                jb(o.qual()),
                jb(r.id_bytes()),
                jopt(r.desc_bytes()),
                jb(i2),
                jopt(d2),
                jb(o.id_bytes()),
                jopt(o.desc_bytes()),
                str_res(r.id()),
                match r.desc() {
                    None => "{\"ok\":true,\"b\":[],\"none\":true}".to_string(),
                    Some(Ok(d)) => format!("{{\"ok\":true,\"b\":{},\"none\":false}}", jb(d.as_bytes())),
                    Some(Err(_)) => "{\"ok\":false,\"b\":[],\"none\":false}".to_string(),
                },
                match r.id_desc() {
                    Ok((i, d)) => format!("{{\"ok\":true,\"id\":{},\"desc\":{}}}", jb(i.as_bytes()), jopt(d.map(|d| d.as_bytes()))),
                    Err(_) => "{\"ok\":false,\"id\":[],\"desc\":[]}".to_string(),
                },
                jb(&w),
                jb(&wu),
                jb(&ow)
            ));
        }
        if serde {
            s.push_str(&format!(",\"serde\":{}", serde_owned(&r.to_owned_record())));
        }
        s.push('}');
        s
    }

    fn idj(id: &Option<String>) -> String {
        match id {
            None => "[]".into(),
            Some(s) => format!("[{}]", jb(s.as_bytes())),
        }
    }

    pub fn err_json(e: &m::Error) -> String {
        let msg = jb(format!("{}", e).as_bytes());
        match e {
            m::Error::Io(e) => format!("{{\"k\":\"io\",\"kind\":\"{}\",\"msg\":{}}}", crate::source::kind_name(e.kind()), msg),
            m::Error::InvalidStart { found, pos } => format!("{{\"k\":\"invalid_start\",\"line\":{},\"found\":{},\"id\":{},\"msg\":{}}}", pos.line, found, idj(&pos.id), msg),
            m::Error::InvalidSep { found, pos } => format!("{{\"k\":\"invalid_sep\",\"line\":{},\"found\":{},\"id\":{},\"msg\":{}}}", pos.line, found, idj(&pos.id), msg),
            m::Error::UnequalLengths { seq, qual, pos } => format!("{{\"k\":\"unequal\",\"line\":{},\"seq\":{},\"qual\":{},\"id\":{},\"msg\":{}}}", pos.line, seq, qual, idj(&pos.id), msg),
            m::Error::UnexpectedEnd { pos } => format!("{{\"k\":\"unexpected_end\",\"line\":{},\"id\":{},\"msg\":{}}}", pos.line, idj(&pos.id), msg),
            m::Error::BufferLimit => format!("{{\"k\":\"buffer_limit\",\"msg\":{}}}", msg),
        }
    }
}
