//! Scripted / recording buffer policy. Built-in policies are the real ones from seq_io; they are
//! only wrapped so that every `grow_to` call is logged with its argument and answer.
use seq_io::policy::{BufPolicy, DoubleUntil, DoubleUntilLimited, StdPolicy};
use std::cell::RefCell;
use std::rc::Rc;

#[derive(Clone, Debug, PartialEq)]
pub enum PolKind {
    Std,
    DoubleUntil(usize),
    DoubleUntilLimited(usize, usize),
    /// always refuses
    Refuse,
    /// current + k
    Plus(usize),
    /// doubles, refuses once the new size would exceed the limit
    DoubleMax(usize),
    /// answers with the current size (a legal answer that changes nothing) for the first k calls, then doubles
    Stall(usize),
}

impl PolKind {
    pub fn parse(v: &serde_json::Value) -> PolKind {
        let k = v["k"].as_str().unwrap_or("std");
        let a = v["a"].as_u64().unwrap_or(0) as usize;
        let b = v["b"].as_u64().unwrap_or(0) as usize;
        match k {
            "std" => PolKind::Std,
            "du" => PolKind::DoubleUntil(a),
            "dul" => PolKind::DoubleUntilLimited(a, b),
            "refuse" => PolKind::Refuse,
            "plus" => PolKind::Plus(a.max(1)),
            "dmax" => PolKind::DoubleMax(a),
            "stall" => PolKind::Stall(a),
            _ => PolKind::Std,
        }
    }
    pub fn json(&self) -> String {
        match self {
            PolKind::Std => "{\"k\":\"std\",\"a\":0,\"b\":0}".into(),
            PolKind::DoubleUntil(a) => format!("{{\"k\":\"du\",\"a\":{},\"b\":0}}", a),
            PolKind::DoubleUntilLimited(a, b) => format!("{{\"k\":\"dul\",\"a\":{},\"b\":{}}}", a, b),
            PolKind::Refuse => "{\"k\":\"refuse\",\"a\":0,\"b\":0}".into(),
            PolKind::Plus(a) => format!("{{\"k\":\"plus\",\"a\":{},\"b\":0}}", a),
            PolKind::DoubleMax(a) => format!("{{\"k\":\"dmax\",\"a\":{},\"b\":0}}", a),
            PolKind::Stall(a) => format!("{{\"k\":\"stall\",\"a\":{},\"b\":0}}", a),
        }
    }
}

/// one `grow_to` call: (policy, argument, answer; 0 = refused)
pub type GrowLog = Rc<RefCell<Vec<(PolKind, usize, usize)>>>;

pub struct ScriptPolicy {
    pub kind: PolKind,
    pub log: GrowLog,
    pub budget: usize,
    pub asked: usize,
}

impl ScriptPolicy {
    pub fn new(kind: PolKind, log: GrowLog) -> ScriptPolicy {
        ScriptPolicy { kind, log, budget: 4000, asked: 0 }
    }
}

impl BufPolicy for ScriptPolicy {
    fn grow_to(&mut self, current: usize) -> Option<usize> {
        let _p = crate::alloc::Pause::new();
        if self.budget == 0 {
            panic!("{}", crate::source::HANG_MSG);
        }
        self.budget -= 1;
        self.asked += 1;
        let ans = match self.kind {
            PolKind::Std => StdPolicy.grow_to(current),
            PolKind::DoubleUntil(d) => DoubleUntil(d).grow_to(current),
            PolKind::DoubleUntilLimited(d, l) => DoubleUntilLimited::new(d, l).grow_to(current),
            PolKind::Refuse => None,
            PolKind::Plus(k) => Some(current + k),
            PolKind::Stall(k) => {
                if self.asked <= k {
                    Some(current)
                } else {
                    Some(current * 2)
                }
            }
            PolKind::DoubleMax(m) => {
                if current * 2 <= m {
                    Some(current * 2)
                } else {
                    None
                }
            }
        };
        self.log.borrow_mut().push((self.kind.clone(), current, ans.unwrap_or(0)));
        ans
    }
}
