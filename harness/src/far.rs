//! A virtual file of up to 2^36 bytes that is never stored: offsets, line numbers and seek distances beyond 2^31 and 2^32.
//! Record k (0-based, k = kh * 65536 + kl) is exactly 32 bytes:
//!   FASTQ "@KKKKKKKKKK.LLLLL d\nACGT\n+\nIIII\n" (4 lines),  FASTA ">KKKKKKKKKK.LLLLL d\nACGTAC\nACGT\n" (3 lines)
//! with KKKKKKKKKK = kh and LLLLL = kl in decimal, so that record k starts at byte 32 k and line L k + 1. The driver runs a
//! script of next / set / seek steps (seeks go to Position::new(L k + 1, 32 k) of a record k) and reports what the reader
//! returned. No expected values here: TraceLong.tla (FarViol) derives them from the description. Numbers that may exceed
//! 2^31 are logged as two limbs [hi, lo] to base 2^16 (TLC's integers have 32 bits).

pub struct Virt {
    fasta: bool,
    nrec: u64,
    pos: u64,
    pub seeks: std::sync::Arc<std::sync::atomic::AtomicUsize>,
}

fn virt_rec(fasta: bool, k: u64) -> [u8; 32] {
    // (no format!: a sequential pass over 2^32 bytes renders 2^27 records)
    let mut a: [u8; 32] = if fasta { *b">0000000000.00000 d\nACGTAC\nACGT\n" } else { *b"@0000000000.00000 d\nACGT\n+\nIIII\n" };
    let (mut hi, mut lo) = (k >> 16, k & 0xffff);
    for i in (1..=10).rev() {
        a[i] = b'0' + (hi % 10) as u8;
        hi /= 10;
    }
    for i in (12..=16).rev() {
        a[i] = b'0' + (lo % 10) as u8;
        lo /= 10;
    }
    a
}

impl std::io::Read for Virt {
    fn read(&mut self, buf: &mut [u8]) -> std::io::Result<usize> {
        let end = self.nrec * 32;
        let mut n = 0;
        while n < buf.len() && self.pos < end {
            let rec = virt_rec(self.fasta, self.pos / 32);
            let off = (self.pos % 32) as usize;
            let take = (32 - off).min(buf.len() - n);
            buf[n..n + take].copy_from_slice(&rec[off..off + take]);
            n += take;
            self.pos += take as u64;
        }
        Ok(n)
    }
}
impl std::io::Seek for Virt {
    fn seek(&mut self, p: std::io::SeekFrom) -> std::io::Result<u64> {
        self.seeks.fetch_add(1, std::sync::atomic::Ordering::SeqCst);
        let to = match p {
            std::io::SeekFrom::Start(o) => o as i128,
            std::io::SeekFrom::Current(d) => self.pos as i128 + d as i128,
            std::io::SeekFrom::End(d) => (self.nrec * 32) as i128 + d as i128,
        };
        if to < 0 {
            return Err(std::io::Error::from(std::io::ErrorKind::InvalidInput));
        }
        self.pos = to as u64;
        Ok(self.pos)
    }
}

fn limbs(v: u64) -> String {
    format!("[{},{}]", v >> 16, v & 0xffff)
}

#[derive(Clone, Copy)]
pub enum Step {
    Next,
    Set,
    Seek(u64),
    /// record sets are read until at least this many records have been delivered by the step; reported like one big set
    Drain(u64),
}

macro_rules! far_driver {
    ($fname:ident, $m:ident, $posof:expr, $errjson:path, $fasta:expr, $lines:expr) => {
        pub fn $fname(nrec: u64, cap: usize, script: Vec<Step>) -> String {
            use seq_io::$m::Record as _;
            let seeks = std::sync::Arc::new(std::sync::atomic::AtomicUsize::new(0));
            let src = Virt { fasta: $fasta, nrec, pos: 0, seeks: seeks.clone() };
            let fmt = if $fasta { "fasta" } else { "fastq" };
            let steps = std::sync::Mutex::new(Vec::<String>::new());
            let res = std::panic::catch_unwind(std::panic::AssertUnwindSafe(|| {
                let mut rdr = seq_io::$m::Reader::with_capacity(src, cap);
                let mut rset = seq_io::$m::RecordSet::default();
                for st in &script {
                    let line = match *st {
                        Step::Next => match rdr.next() {
                            None => "{\"op\":\"next\",\"k\":\"none\"}".to_string(),
                            Some(Err(e)) => format!("{{\"op\":\"next\",\"k\":\"err\",\"err\":{}}}", $errjson(&e)),
                            Some(Ok(r)) => {
                                let head = crate::util::jb(r.head());
                                let p: Option<(u64, u64)> = $posof(&rdr);
                                let (l, b) = p.unwrap_or((0, 0));
                                format!("{{\"op\":\"next\",\"k\":\"rec\",\"head\":{},\"line\":{},\"byte\":{}}}", head, limbs(l), limbs(b))
                            }
                        },
                        Step::Set => match rdr.read_record_set(&mut rset) {
                            None => "{\"op\":\"set\",\"k\":\"none\"}".to_string(),
                            Some(Err(e)) => format!("{{\"op\":\"set\",\"k\":\"err\",\"err\":{}}}", $errjson(&e)),
                            Some(Ok(())) => {
                                let heads: Vec<String> = rset.into_iter().map(|r| crate::util::jb(r.head())).collect();
                                let n = heads.len();
                                // first three and last three heads (a set of a 64 KiB buffer holds 2048 records)
                                let shown: Vec<String> = heads.iter().enumerate().filter(|(i, _)| *i < 3 || *i + 3 >= n).map(|(i, h)| format!("{{\"i\":{},\"head\":{}}}", i, h)).collect();
                                let p: Option<(u64, u64)> = $posof(&rdr);
                                let pj = match p {
                                    Some((l, b)) => format!("{{\"has\":true,\"line\":{},\"byte\":{}}}", limbs(l), limbs(b)),
                                    None => "{\"has\":false}".to_string(),
                                };
                                format!("{{\"op\":\"set\",\"k\":\"some\",\"n\":{},\"heads\":[{}],\"pos\":{}}}", n, shown.join(","), pj)
                            }
                        },
                        Step::Drain(want) => {
                            let mut n = 0u64;
                            let mut first: Vec<String> = vec![];
                            let mut last: std::collections::VecDeque<(u64, String)> = Default::default();
                            let mut out = None;
                            while n < want {
                                match rdr.read_record_set(&mut rset) {
                                    None => {
                                        out = Some("{\"op\":\"set\",\"k\":\"none\"}".to_string());
                                        break;
                                    }
                                    Some(Err(e)) => {
                                        out = Some(format!("{{\"op\":\"set\",\"k\":\"err\",\"err\":{}}}", $errjson(&e)));
                                        break;
                                    }
                                    Some(Ok(())) => {
                                        let len = rset.len() as u64;
                                        let near_end = n + len + 4096 >= want;
                                        for r in &rset {
                                            if n < 3 {
                                                first.push(format!("{{\"i\":{},\"head\":{}}}", n, crate::util::jb(r.head())));
                                            } else if near_end {
                                                last.push_back((n, crate::util::jb(r.head())));
                                                if last.len() > 3 {
                                                    last.pop_front();
                                                }
                                            }
                                            n += 1;
                                        }
                                    }
                                }
                            }
                            match out {
                                Some(o) => o,
                                None => {
                                    let mut shown = first;
                                    shown.extend(last.iter().map(|(i, h)| format!("{{\"i\":{},\"head\":{}}}", i, h)));
                                    let p: Option<(u64, u64)> = $posof(&rdr);
                                    let pj = match p {
                                        Some((l, b)) => format!("{{\"has\":true,\"line\":{},\"byte\":{}}}", limbs(l), limbs(b)),
                                        None => "{\"has\":false}".to_string(),
                                    };
                                    format!("{{\"op\":\"set\",\"k\":\"some\",\"n\":{},\"heads\":[{}],\"pos\":{}}}", n, shown.join(","), pj)
                                }
                            }
                        }
                        Step::Seek(k) => {
                            let before = seeks.load(std::sync::atomic::Ordering::SeqCst);
                            let to = seq_io::$m::Position::new($lines * k + 1, 32 * k);
                            let ok = rdr.seek(&to).is_ok();
                            let after = seeks.load(std::sync::atomic::Ordering::SeqCst);
                            format!("{{\"op\":\"seek\",\"t\":{},\"ok\":{},\"src_seeks\":{}}}", limbs(k), ok, after - before)
                        }
                    };
                    steps.lock().unwrap().push(line);
                }
            }));
            let steps = steps.lock().unwrap_or_else(|e| e.into_inner());
            format!("{{\"ev\":\"far\",\"fmt\":\"{}\",\"cap\":{},\"nrec\":{},\"nsteps\":{},\"panic\":{},\"steps\":[{}]}}", fmt, cap, limbs(nrec), script.len(), res.is_err(), steps.join(","))
        }
    };
}

fn fa_pos<R: std::io::Read, P: seq_io::policy::BufPolicy>(r: &seq_io::fasta::Reader<R, P>) -> Option<(u64, u64)> {
    r.position().map(|p| (p.line(), p.byte()))
}
fn fq_pos<R: std::io::Read, P: seq_io::policy::BufPolicy>(r: &seq_io::fastq::Reader<R, P>) -> Option<(u64, u64)> {
    let p = r.position();
    Some((p.line(), p.byte()))
}
far_driver!(far_fasta, fasta, fa_pos, crate::reader::fa::err_json, true, 3u64);
far_driver!(far_fastq, fastq, fq_pos, crate::reader::fq::err_json, false, 4u64);

/// the scripts: from a reader that has just read the first records of the file (its buffer holds the start of the file), seeks
/// to records whose byte offset / line number / distance is just below, at and above 2^31, 2^32, 2^33 (bytes) resp. 2^32
/// (lines), then reads; back to the start; forward again from a far position; to the last record and beyond it
pub fn scripts(thorough: bool) -> Vec<Vec<Step>> {
    use Step::*;
    let mut out = vec![];
    // byte 2^31 = record 2^26, byte 2^32 = record 2^27, byte 2^33 = record 2^28; line 2^32 at record 2^30 (FASTQ) / ~1.43e9 (FASTA)
    let marks: Vec<u64> = vec![1 << 26, 1 << 27, 1 << 28, 1 << 30, (1u64 << 32) / 3, 1 << 31];
    for &m in &marks {
        for d in if thorough { vec![0i64, 1, 2, 5, -1, -3, 40, 2047, 2048] } else { vec![0i64, 2, 5, -1] } {
            let k = (m as i64 + d) as u64;
            // the reader stands at the start of the file, its buffer filled
            out.push(vec![Next, Next, Seek(k), Next, Next, Set, Next, Seek(1), Next, Seek(k + 1), Set, Next]);
            // the reader stands at a far position (in-buffer shortcut with large numbers), then goes on to another mark
            out.push(vec![Set, Seek(k), Next, Next, Seek(k + 3), Next, Seek(k), Next, Seek(k - 2), Next, Seek(k + m), Next, Seek(3), Set]);
        }
    }
    out
}
