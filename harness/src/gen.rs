//! Case descriptions and suite expansion (inputs x configurations x histories). Pure
//! enumeration / seeded randomness; nothing in here knows what the right answer is.
use crate::policy::PolKind;
use serde_json::Value;

#[derive(Clone)]
pub struct Rng(pub u64);
impl Rng {
    pub fn new(seed: u64) -> Rng {
        Rng(seed.wrapping_mul(0x9E3779B97F4A7C15) ^ 0xD1B54A32D192ED03)
    }
    pub fn next(&mut self) -> u64 {
        // splitmix64
        self.0 = self.0.wrapping_add(0x9E3779B97F4A7C15);
        let mut z = self.0;
        z = (z ^ (z >> 30)).wrapping_mul(0xBF58476D1CE4E5B9);
        z = (z ^ (z >> 27)).wrapping_mul(0x94D049BB133111EB);
        z ^ (z >> 31)
    }
    pub fn below(&mut self, n: usize) -> usize {
        if n == 0 {
            0
        } else {
            (self.next() % n as u64) as usize
        }
    }
    pub fn chance(&mut self, num: usize, den: usize) -> bool {
        self.below(den) < num
    }
    pub fn pick<'a, T>(&mut self, v: &'a [T]) -> &'a T {
        &v[self.below(v.len())]
    }
}

#[derive(Clone, Debug, PartialEq)]
pub enum Op {
    Next,
    Iter,
    Set(usize),
    Exact(usize, usize),
    /// seek to the i-th position the reader reported earlier in this run (mod count)
    SeekR(usize),
    /// seek to the i-th candidate record start computed from the raw bytes (mod count)
    SeekL(usize),
    /// seek to an explicit position
    SeekP(u64, u64),
    Pol(PolKind),
    Serde(usize),
    /// RecordSet::shrink_buffer_to_fit on a slot
    Shrink(usize),
}

impl Op {
    pub fn parse(v: &Value) -> Op {
        let s = v["s"].as_u64().unwrap_or(0) as usize;
        match v["o"].as_str().unwrap_or("next") {
            "next" => Op::Next,
            "iter" => Op::Iter,
            "set" => Op::Set(s),
            "exact" => Op::Exact(s, v["n"].as_u64().unwrap_or(1).max(1) as usize),
            "seekr" => Op::SeekR(v["i"].as_u64().unwrap_or(0) as usize),
            "seekl" => Op::SeekL(v["i"].as_u64().unwrap_or(0) as usize),
            "seekp" => Op::SeekP(v["l"].as_u64().unwrap_or(1), v["b"].as_u64().unwrap_or(0)),
            "pol" => Op::Pol(PolKind::parse(&v["p"])),
            "serde" => Op::Serde(s),
            "shrink" => Op::Shrink(s),
            _ => Op::Next,
        }
    }
    pub fn json(&self) -> String {
        match self {
            Op::Next => "{\"o\":\"next\"}".into(),
            Op::Iter => "{\"o\":\"iter\"}".into(),
            Op::Set(s) => format!("{{\"o\":\"set\",\"s\":{}}}", s),
            Op::Exact(s, n) => format!("{{\"o\":\"exact\",\"s\":{},\"n\":{}}}", s, n),
            Op::SeekR(i) => format!("{{\"o\":\"seekr\",\"i\":{}}}", i),
            Op::SeekL(i) => format!("{{\"o\":\"seekl\",\"i\":{}}}", i),
            Op::SeekP(l, b) => format!("{{\"o\":\"seekp\",\"l\":{},\"b\":{}}}", l, b),
            Op::Pol(p) => format!("{{\"o\":\"pol\",\"p\":{}}}", p.json()),
            Op::Serde(s) => format!("{{\"o\":\"serde\",\"s\":{}}}", s),
            Op::Shrink(s) => format!("{{\"o\":\"shrink\",\"s\":{}}}", s),
        }
    }
}

#[derive(Clone, Debug)]
pub struct Case {
    pub fmt: String,
    pub x: Vec<u8>,
    pub cap: usize,
    pub chunks: Vec<usize>,
    pub intr_every: usize,
    pub fault_at: usize,
    pub fault_kind: String,
    pub pol: PolKind,
    pub ops: Vec<Op>,
    /// op repeated after `ops` until it has returned `extra`+1 non-record results; `into` mode
    /// (owned iterator consuming the reader) if `into` is set
    pub tail: Op,
    pub into: bool,
    pub extra: usize,
    pub slots: usize,
    pub views: bool,
    pub alloc: bool,
    pub serde: bool,
    /// pair group: id, first-of-group, property the pairing speaks about
    pub grp: usize,
    pub first: bool,
    pub pp: String,
}

impl Case {
    pub fn json(&self) -> String {
        format!(
            "{{\"f\":\"{}\",\"x\":{:?},\"cap\":{},\"ch\":{:?},\"ie\":{},\"fa\":{},\"fk\":\"{}\",\"pol\":{},\"ops\":[{}],\"tail\":{},\"into\":{},\"extra\":{},\"slots\":{},\"views\":{},\"alloc\":{},\"serde\":{},\"pp\":\"{}\"}}",
            self.fmt,
            self.x,
            self.cap,
            self.chunks,
            self.intr_every,
            self.fault_at,
            self.fault_kind,
            self.pol.json(),
            self.ops.iter().map(|o| o.json()).collect::<Vec<_>>().join(","),
            self.tail.json(),
            self.into,
            self.extra,
            self.slots,
            self.views,
            self.alloc,
            self.serde,
            self.pp
        )
    }
    pub fn parse(v: &Value) -> Case {
        let bytes = |v: &Value| -> Vec<u8> { v.as_array().map(|a| a.iter().map(|b| b.as_u64().unwrap_or(0) as u8).collect()).unwrap_or_default() };
        let nums = |v: &Value| -> Vec<usize> { v.as_array().map(|a| a.iter().map(|b| b.as_u64().unwrap_or(0) as usize).collect()).unwrap_or_default() };
        Case {
            fmt: v["f"].as_str().unwrap_or("fasta").to_string(),
            x: bytes(&v["x"]),
            cap: v["cap"].as_u64().unwrap_or(64).max(3) as usize,
            chunks: nums(&v["ch"]),
            intr_every: v["ie"].as_u64().unwrap_or(0) as usize,
            fault_at: v["fa"].as_u64().unwrap_or(0) as usize,
            fault_kind: v["fk"].as_str().unwrap_or("other").to_string(),
            pol: PolKind::parse(&v["pol"]),
            ops: v["ops"].as_array().map(|a| a.iter().map(Op::parse).collect()).unwrap_or_default(),
            tail: Op::parse(&v["tail"]),
            into: v["into"].as_bool().unwrap_or(false),
            extra: v["extra"].as_u64().unwrap_or(2) as usize,
            slots: v["slots"].as_u64().unwrap_or(2) as usize,
            views: v["views"].as_bool().unwrap_or(false),
            alloc: v["alloc"].as_bool().unwrap_or(false),
            serde: v["serde"].as_bool().unwrap_or(false),
            grp: 0,
            first: true,
            pp: v["pp"].as_str().unwrap_or("").to_string(),
        }
    }
}

// ------------------------------------------------------------------------------------------
// inputs

fn enum_strings(alpha: &[u8], min: usize, max: usize, f: &mut dyn FnMut(&[u8])) {
    fn rec(alpha: &[u8], cur: &mut Vec<u8>, min: usize, max: usize, f: &mut dyn FnMut(&[u8])) {
        if cur.len() >= min {
            f(cur);
        }
        if cur.len() == max {
            return;
        }
        for &b in alpha {
            cur.push(b);
            rec(alpha, cur, min, max, f);
            cur.pop();
        }
    }
    rec(alpha, &mut vec![], min, max, f);
}

/// a random well-formed-ish file, optionally damaged
pub fn rand_struct(rng: &mut Rng, fmt: &str, p: &Value) -> Vec<u8> {
    let maxrec = p["maxrec"].as_u64().unwrap_or(4) as usize;
    let maxfield = p["maxfield"].as_u64().unwrap_or(5) as usize;
    let damage = p["damage"].as_u64().unwrap_or(30) as usize; // percent of files damaged
    let bytes_any = p["anybyte"].as_bool().unwrap_or(false);
    let fieldalpha: Vec<u8> = p["fieldalpha"].as_array().map(|a| a.iter().map(|b| b.as_u64().unwrap() as u8).collect()).unwrap_or_else(|| vec![b'A', b'C', b' ', b'@', b'+', b'>', b'I']);
    let mut out = vec![];
    let crlf_file = rng.chance(1, 3);
    let mixed = rng.chance(1, 6);
    let eol = |rng: &mut Rng, out: &mut Vec<u8>| {
        let cr = if mixed { rng.chance(1, 2) } else { crlf_file };
        if cr {
            out.push(13);
        }
        out.push(10);
    };
    let field = |rng: &mut Rng, out: &mut Vec<u8>, n: usize| {
        for _ in 0..n {
            if bytes_any && rng.chance(1, 8) {
                let b = (rng.next() & 0xff) as u8;
                if b != 10 && b != 13 {
                    out.push(b);
                } else {
                    out.push(0xC3);
                }
            } else {
                out.push(*rng.pick(&fieldalpha));
            }
        }
    };
    if fmt == "fasta" {
        for _ in 0..rng.below(3) {
            if rng.chance(1, 4) {
                eol(rng, &mut out);
            }
        }
    }
    let nrec = rng.below(maxrec + 1);
    for r in 0..nrec {
        let last = r + 1 == nrec;
        if fmt == "fasta" {
            out.push(b'>');
            let n = rng.below(maxfield + 1);
            field(rng, &mut out, n);
            let nl = rng.below(4);
            if nl == 0 && last && rng.chance(1, 2) {
                break;
            }
            eol(rng, &mut out);
            for l in 0..nl {
                let n = if rng.chance(1, 6) { 0 } else { 1 + rng.below(maxfield) };
                // a sequence line must not start with '>'
                let startlen = out.len();
                field(rng, &mut out, n);
                if out.len() > startlen && out[startlen] == b'>' {
                    out[startlen] = b'A';
                }
                if last && l + 1 == nl && rng.chance(1, 3) {
                    break;
                }
                eol(rng, &mut out);
            }
        } else {
            out.push(b'@');
            let n = rng.below(maxfield + 1);
            field(rng, &mut out, n);
            eol(rng, &mut out);
            let n = rng.below(maxfield + 1);
            field(rng, &mut out, n);
            eol(rng, &mut out);
            out.push(b'+');
            if rng.chance(1, 5) {
                field(rng, &mut out, 2);
            }
            eol(rng, &mut out);
            field(rng, &mut out, n);
            if last && rng.chance(1, 3) {
                break;
            }
            eol(rng, &mut out);
        }
    }
    if rng.chance(1, 4) {
        for _ in 0..rng.below(4) {
            eol(rng, &mut out);
        }
    }
    if rng.below(100) < damage && !out.is_empty() {
        match rng.below(4) {
            0 => {
                let n = rng.below(out.len());
                out.truncate(n);
            }
            1 => {
                let i = rng.below(out.len());
                out.remove(i);
            }
            2 => {
                let i = rng.below(out.len());
                let specials = [10u8, 13, b'>', b'@', b'+', b' ', b'A'];
                out[i] = *rng.pick(&specials);
            }
            _ => {
                let i = rng.below(out.len() + 1);
                let specials = [10u8, 13, b'>', b'@', b'+', b' ', b'A'];
                out.insert(i, *rng.pick(&specials));
            }
        }
    }
    out
}

pub fn for_each_input(suite: &Value, fmt: &str, rng: &mut Rng, f: &mut dyn FnMut(&[u8])) {
    let inp = &suite["inputs"];
    if let Some(e) = inp.get("enum") {
        let alpha: Vec<u8> = e["alpha"].as_array().unwrap().iter().map(|b| b.as_u64().unwrap() as u8).collect();
        let min = e["min"].as_u64().unwrap_or(0) as usize;
        let max = e["max"].as_u64().unwrap_or(4) as usize;
        enum_strings(&alpha, min, max, f);
    }
    if let Some(l) = inp.get("list") {
        for x in l.as_array().unwrap() {
            let v: Vec<u8> = x.as_array().unwrap().iter().map(|b| b.as_u64().unwrap() as u8).collect();
            f(&v);
        }
    }
    if let Some(r) = inp.get("rand") {
        let n = r["n"].as_u64().unwrap_or(100) as usize;
        let kind = r["kind"].as_str().unwrap_or("struct");
        for _ in 0..n {
            let x = if kind == "bytes" {
                let alpha: Vec<u8> = r["alpha"].as_array().map(|a| a.iter().map(|b| b.as_u64().unwrap() as u8).collect()).unwrap_or_default();
                let maxlen = r["maxlen"].as_u64().unwrap_or(20) as usize;
                let len = rng.below(maxlen + 1);
                (0..len).map(|_| if alpha.is_empty() || rng.chance(1, 10) { (rng.next() & 0xff) as u8 } else { *rng.pick(&alpha) }).collect::<Vec<u8>>()
            } else {
                rand_struct(rng, fmt, r)
            };
            f(&x);
        }
    }
}

// ------------------------------------------------------------------------------------------
// histories

#[derive(Clone)]
pub struct Hist {
    pub ops: Vec<Op>,
    pub tail: Op,
    pub into: bool,
}

fn enum_hist(alpha: &[Op], depth: usize, tail: &Op, out: &mut Vec<Hist>) {
    fn rec(alpha: &[Op], cur: &mut Vec<Op>, depth: usize, tail: &Op, out: &mut Vec<Hist>) {
        out.push(Hist { ops: cur.clone(), tail: tail.clone(), into: false });
        if cur.len() == depth {
            return;
        }
        for o in alpha {
            cur.push(o.clone());
            rec(alpha, cur, depth, tail, out);
            cur.pop();
        }
    }
    rec(alpha, &mut vec![], depth, tail, out);
}

pub fn rand_hist(rng: &mut Rng, p: &Value, slots: usize) -> Hist {
    let len = rng.below(p["len"].as_u64().unwrap_or(6) as usize + 1);
    let seeks = p["seeks"].as_bool().unwrap_or(true);
    let pols = p["pols"].as_bool().unwrap_or(false);
    let serde = p["serde"].as_bool().unwrap_or(false);
    let maxn = p["maxn"].as_u64().unwrap_or(3) as usize;
    let shrink = p["shrink"].as_bool().unwrap_or(false);
    let mut ops = vec![];
    for _ in 0..len {
        let r = rng.below(100);
        let s = rng.below(slots.max(1));
        let op = if r < 30 {
            Op::Next
        } else if r < 40 {
            Op::Iter
        } else if r < 58 {
            Op::Set(s)
        } else if r < 76 {
            Op::Exact(s, 1 + rng.below(maxn))
        } else if r < 92 && seeks {
            if rng.chance(1, 2) {
                Op::SeekR(rng.below(8))
            } else {
                Op::SeekL(rng.below(8))
            }
        } else if r < 96 && pols {
            Op::Pol(match rng.below(3) {
                0 => PolKind::Std,
                1 => PolKind::Plus(1 + rng.below(3)),
                _ => PolKind::DoubleUntil(4 + rng.below(8)),
            })
        } else if shrink && r >= 97 {
            Op::Shrink(s)
        } else if serde {
            Op::Serde(s)
        } else {
            Op::Next
        };
        ops.push(op);
    }
    let tail = match rng.below(4) {
        0 => Op::Set(rng.below(slots.max(1))),
        1 => Op::Exact(rng.below(slots.max(1)), 1 + rng.below(maxn)),
        2 => Op::Iter,
        _ => Op::Next,
    };
    Hist { ops, tail, into: false }
}

pub fn histories(suite: &Value, rng: &mut Rng, slots: usize) -> Vec<Hist> {
    let h = &suite["hist"];
    let mut out = vec![];
    if let Some(fx) = h.get("fixed") {
        for e in fx.as_array().unwrap() {
            out.push(Hist {
                ops: e["ops"].as_array().map(|a| a.iter().map(Op::parse).collect()).unwrap_or_default(),
                tail: Op::parse(&e["tail"]),
                into: e["into"].as_bool().unwrap_or(false),
            });
        }
    }
    if let Some(en) = h.get("enum") {
        let alpha: Vec<Op> = en["ops"].as_array().unwrap().iter().map(Op::parse).collect();
        let depth = en["depth"].as_u64().unwrap_or(2) as usize;
        let tails: Vec<Op> = en["tails"].as_array().map(|a| a.iter().map(Op::parse).collect()).unwrap_or_else(|| vec![Op::Next]);
        for t in &tails {
            enum_hist(&alpha, depth, t, &mut out);
        }
    }
    if let Some(r) = h.get("rand") {
        let n = r["n"].as_u64().unwrap_or(1) as usize;
        for _ in 0..n {
            out.push(rand_hist(rng, r, slots));
        }
    }
    if out.is_empty() {
        out.push(Hist { ops: vec![], tail: Op::Next, into: false });
    }
    out
}

// ------------------------------------------------------------------------------------------
// suite expansion into groups of cases

pub struct Conf {
    pub cap: usize,
    pub chunks: Vec<usize>,
    pub intr: usize,
    pub pol: PolKind,
}

fn caps_for(suite: &Value, len: usize) -> Vec<usize> {
    let c = &suite["caps"];
    let mut v: Vec<usize> = vec![];
    if let Some(a) = c.as_array() {
        v.extend(a.iter().map(|b| b.as_u64().unwrap() as usize));
    } else {
        if let Some(a) = c.get("abs").and_then(|a| a.as_array()) {
            v.extend(a.iter().map(|b| b.as_u64().unwrap() as usize));
        }
        if let Some(a) = c.get("rel").and_then(|a| a.as_array()) {
            // relative to the input length
            v.extend(a.iter().map(|b| (len as i64 + b.as_i64().unwrap()).max(3) as usize));
        }
        if let Some(r) = c.get("upto_len_plus") {
            // every capacity 3..=len+k
            let k = r.as_u64().unwrap() as usize;
            v.extend(3..=(len + k).max(3));
        }
    }
    v.sort();
    v.dedup();
    v.retain(|c| *c >= 3);
    if v.is_empty() {
        v.push(64);
    }
    v
}

/// Calls `f` with one group of cases at a time. A group has one case unless the suite pairs
/// configurations (`pair`), in which case all configurations of one (input, history) form a group.
pub fn for_each_group(suite: &Value, seed: u64, f: &mut dyn FnMut(usize, Vec<Case>)) {
    let fmt = suite["fmt"].as_str().unwrap_or("fasta").to_string();
    let mut rng = Rng::new(seed ^ suite["seed"].as_u64().unwrap_or(0));
    let slots = suite["slots"].as_u64().unwrap_or(2) as usize;
    let extra = suite["extra"].as_u64().unwrap_or(2) as usize;
    let pair = suite["pair"].as_str().unwrap_or("").to_string();
    let sample = suite["sample"].as_u64().unwrap_or(0) as usize; // keep 1 of `sample` groups (0 = all)
    let chunksets: Vec<Vec<usize>> = suite["chunks"].as_array().map(|a| a.iter().map(|c| c.as_array().unwrap().iter().map(|b| b.as_u64().unwrap() as usize).collect()).collect()).unwrap_or_else(|| vec![vec![0]]);
    let intrs: Vec<usize> = suite["intr"].as_array().map(|a| a.iter().map(|b| b.as_u64().unwrap() as usize).collect()).unwrap_or_else(|| vec![0]);
    let pols: Vec<PolKind> = suite["pols"].as_array().map(|a| a.iter().map(PolKind::parse).collect()).unwrap_or_else(|| vec![PolKind::Std]);
    let fl = &suite["flags"];
    let (views, alloc, serde) = (fl["views"].as_bool().unwrap_or(false), fl["alloc"].as_bool().unwrap_or(false), fl["serde"].as_bool().unwrap_or(false));
    let hist_per_input = suite["hist"].get("rand").is_some();
    let fixed_hists = if hist_per_input { vec![] } else { histories(suite, &mut rng, slots) };
    let conf_sample = suite["conf_sample"].as_u64().unwrap_or(0) as usize; // pick this many random confs per (input,hist) (0 = all)
    let mut gi = 0usize;
    let mut hrng = Rng::new(seed.wrapping_add(77));
    let mut srng = Rng::new(seed.wrapping_add(1234567));
    let mut inputs_fn = |x: &[u8]| {
        let hs = if hist_per_input { histories(suite, &mut hrng, slots) } else { fixed_hists.clone() };
        let caps = caps_for(suite, x.len());
        let mut confs = vec![];
        for &cap in &caps {
            for ch in &chunksets {
                for &ie in &intrs {
                    for p in &pols {
                        confs.push(Conf { cap, chunks: ch.clone(), intr: ie, pol: p.clone() });
                    }
                }
            }
        }
        for h in &hs {
            let chosen: Vec<&Conf> = if conf_sample > 0 && conf_sample < confs.len() {
                (0..conf_sample).map(|_| &confs[srng.below(confs.len())]).collect()
            } else {
                confs.iter().collect()
            };
            let mk = |c: &Conf, grp: usize, first: bool| Case {
                fmt: fmt.clone(),
                x: x.to_vec(),
                cap: c.cap,
                chunks: c.chunks.clone(),
                intr_every: c.intr,
                fault_at: 0,
                fault_kind: "other".into(),
                pol: c.pol.clone(),
                ops: h.ops.clone(),
                tail: h.tail.clone(),
                into: h.into,
                extra,
                slots,
                views,
                alloc,
                serde,
                grp,
                first,
                pp: pair.clone(),
            };
            if !pair.is_empty() {
                if sample > 0 && srng.below(sample) != 0 {
                    continue;
                }
                let g: Vec<Case> = chosen.iter().enumerate().map(|(i, c)| mk(c, gi, i == 0)).collect();
                f(gi, g);
                gi += 1;
            } else {
                for c in chosen {
                    if sample > 0 && srng.below(sample) != 0 {
                        continue;
                    }
                    f(gi, vec![mk(c, gi, true)]);
                    gi += 1;
                }
            }
        }
    };
    if suite["inputs"].get("groups").is_some() || suite["inputs"].get("wf").is_some() {
        // groups of renderings of one structure (C12): every rendering x configuration of a group
        // is compared with the first one
        let mut groups: Vec<Vec<Vec<u8>>> = vec![];
        if let Some(gs) = suite["inputs"].get("groups") {
            for g in gs.as_array().unwrap() {
                groups.push(g.as_array().unwrap().iter().map(|x| x.as_array().unwrap().iter().map(|b| b.as_u64().unwrap() as u8).collect()).collect());
            }
        }
        if let Some(w) = suite["inputs"].get("wf") {
            let n = w["n"].as_u64().unwrap_or(100) as usize;
            for _ in 0..n {
                groups.push(wellformed_renderings(&mut rng, &fmt, w));
            }
        }
        let hs = histories(suite, &mut hrng, slots);
        for g in &groups {
            let maxlen = g.iter().map(|x| x.len()).max().unwrap_or(0);
            let caps = caps_for(suite, maxlen);
            for h in &hs {
                let mut cases = vec![];
                for (ri, x) in g.iter().enumerate() {
                    for (ci, &cap) in caps.iter().enumerate() {
                        for ch in &chunksets {
                            cases.push(Case {
                                fmt: fmt.clone(), x: x.clone(), cap, chunks: ch.clone(), intr_every: 0, fault_at: 0, fault_kind: "other".into(),
                                pol: PolKind::Std, ops: h.ops.clone(), tail: h.tail.clone(), into: h.into, extra, slots, views, alloc, serde,
                                grp: gi, first: ri == 0 && ci == 0 && cases.is_empty(), pp: pair.clone(),
                            });
                        }
                    }
                }
                f(gi, cases);
                gi += 1;
            }
        }
        return;
    }
    for_each_input(suite, &fmt, &mut rng, &mut inputs_fn);
}

/// a well-formed file (fields free of CR/LF) rendered with LF / CRLF, with / without final
/// terminator, and (FASTA) with per-line mixtures of the two endings
pub fn wellformed_renderings(rng: &mut Rng, fmt: &str, p: &Value) -> Vec<Vec<u8>> {
    let maxrec = p["maxrec"].as_u64().unwrap_or(4) as usize;
    let maxfield = p["maxfield"].as_u64().unwrap_or(6) as usize;
    let alpha: Vec<u8> = vec![b'A', b'C', b'G', b' ', b'@', b'+', b'>', b'I', 0xC3, 0xA9, b';'];
    let field = |rng: &mut Rng, n: usize| -> Vec<u8> { (0..n).map(|_| *rng.pick(&alpha)).collect() };
    // lines of the file, LF-free; blank lines may precede the first FASTA record and follow the last record
    let mut lines: Vec<Vec<u8>> = vec![];
    if fmt == "fasta" && rng.chance(1, 3) {
        for _ in 0..(1 + rng.below(4)) {
            lines.push(vec![]);
        }
    }
    let nrec = 1 + rng.below(maxrec);
    for _ in 0..nrec {
        if fmt == "fasta" {
            let mut h = vec![b'>'];
            let n0 = rng.below(maxfield + 1);
            h.extend(field(rng, n0));
            lines.push(h);
            for _ in 0..rng.below(4) {
                let n1 = 1 + rng.below(maxfield);
                let mut l = field(rng, n1);
                if l[0] == b'>' {
                    l[0] = b'A';
                }
                lines.push(l);
            }
        } else {
            let mut h = vec![b'@'];
            let n0 = rng.below(maxfield + 1);
            h.extend(field(rng, n0));
            lines.push(h);
            let n = rng.below(maxfield + 1);
            lines.push(field(rng, n));
            let mut sep = vec![b'+'];
            if rng.chance(1, 4) {
                sep.extend(field(rng, 2));
            }
            lines.push(sep);
            lines.push(field(rng, n));
        }
    }
    if rng.chance(1, 4) {
        for _ in 0..(1 + rng.below(2)) {
            lines.push(vec![]);
        }
    }
    let render = |eol: &dyn Fn(usize) -> bool, fin: bool| -> Vec<u8> {
        let mut out = vec![];
        for (i, l) in lines.iter().enumerate() {
            out.extend(l);
            if i + 1 < lines.len() || fin {
                if eol(i) {
                    out.push(13);
                }
                out.push(10);
            }
        }
        out
    };
    // an empty last line cannot drop its terminator (the line would vanish)
    let last_empty = lines.last().map(|l| l.is_empty()).unwrap_or(true);
    let mut v = if last_empty {
        vec![render(&|_| false, true), render(&|_| true, true)]
    } else {
        vec![render(&|_| false, true), render(&|_| false, false), render(&|_| true, true), render(&|_| true, false)]
    };
    if fmt == "fasta" {
        for _ in 0..2 {
            let mask = rng.next();
            let fin = last_empty || rng.chance(1, 2);
            v.push(render(&|i| (mask >> (i % 60)) & 1 == 1, fin));
        }
    }
    v
}
