//! vharness: drives the real seq_io code and records what it does. It contains no expected
//! values; every verdict is taken by TLC from the TLA+ specifications in /verif/spec.
mod alloc;
mod far;
mod gen;
mod long;
mod par;
mod policy;
mod reader;
mod source;
mod util;
mod wi;

use serde_json::Value;
use std::io::Write;

#[global_allocator]
static GLOBAL: alloc::Counting = alloc::Counting;

fn usage() -> ! {
    eprintln!("usage: vharness reader --suite <file.json> --out <prefix> [--shards N] [--seed S] [--snap]");
    eprintln!("       vharness replay-reader <case.json>");
    std::process::exit(2)
}

fn arg(args: &[String], name: &str) -> Option<String> {
    args.iter().position(|a| a == name).and_then(|i| args.get(i + 1).cloned())
}

fn run_group(fmt: &str, g: &[gen::Case], suite: &Value, out: &mut String, st: &mut reader::fa::Stats, snap: bool) {
    let fault_mode = suite["faults"]["mode"].as_str().unwrap_or("none");
    let kinds: Vec<String> = suite["faults"]["kinds"].as_array().map(|a| a.iter().map(|k| k.as_str().unwrap().to_string()).collect()).unwrap_or_else(|| vec!["other".into()]);
    for c in g {
        let calls = run_one(fmt, c, out, st, snap);
        if fault_mode == "each" {
            // a fault at the k-th source call, for every k the fault-free run made (+1)
            let mut ki = 0;
            for k in 1..=calls + 1 {
                let mut fc = c.clone();
                fc.fault_at = k;
                fc.fault_kind = kinds[ki % kinds.len()].clone();
                ki += 1;
                run_one(fmt, &fc, out, st, snap);
            }
        }
    }
}

fn run_one(fmt: &str, c: &gen::Case, out: &mut String, st: &mut reader::fa::Stats, snap: bool) -> usize {
    if fmt == "fasta" {
        reader::fa::run_case(c, out, st, snap)
    } else {
        // Stats types are structurally identical; keep one
        let mut s2 = reader::fq::Stats { cases: 0, events: 0, recs: 0, panics: 0 };
        let n = reader::fq::run_case(c, out, &mut s2, snap);
        st.cases += s2.cases;
        st.events += s2.events;
        st.recs += s2.recs;
        st.panics += s2.panics;
        n
    }
}

fn cmd_reader(args: &[String]) {
    let suite_path = arg(args, "--suite").unwrap_or_else(|| usage());
    let prefix = arg(args, "--out").unwrap_or_else(|| usage());
    let shards: usize = arg(args, "--shards").map(|s| s.parse().unwrap()).unwrap_or(1);
    let seed: u64 = arg(args, "--seed").map(|s| s.parse().unwrap()).unwrap_or(0);
    let snap = args.iter().any(|a| a == "--snap");
    let suite: Value = serde_json::from_str(&std::fs::read_to_string(&suite_path).expect("suite file")).expect("suite json");
    let fmt = suite["fmt"].as_str().unwrap_or("fasta").to_string();
    // watchdog: a case that makes no progress for 30 s is a hang of the code under test
    let progress = std::sync::Arc::new(std::sync::atomic::AtomicU64::new(0));
    let finished = std::sync::Arc::new(std::sync::atomic::AtomicBool::new(false));
    let mut handles = vec![];
    for sh in 0..shards {
        let suite = suite.clone();
        let fmt = fmt.clone();
        let prefix = prefix.clone();
        let progress = progress.clone();
        handles.push(std::thread::spawn(move || {
            let path = format!("{}.{}.ndjson", prefix, sh);
            let mut file = std::io::BufWriter::new(std::fs::File::create(&path).expect("create shard"));
            let mut st = reader::fa::Stats { cases: 0, events: 0, recs: 0, panics: 0 };
            let mut buf = String::new();
            gen::for_each_group(&suite, seed, &mut |gi, g| {
                if gi % shards != sh {
                    return;
                }
                buf.clear();
                run_group(&fmt, &g, &suite, &mut buf, &mut st, snap);
                file.write_all(buf.as_bytes()).unwrap();
                progress.fetch_add(1, std::sync::atomic::Ordering::Relaxed);
            });
            file.flush().unwrap();
            st
        }));
    }
    {
        let progress = progress.clone();
        let finished = finished.clone();
        std::thread::spawn(move || {
            let mut last = 0;
            let mut idle = 0;
            loop {
                std::thread::sleep(std::time::Duration::from_secs(1));
                if finished.load(std::sync::atomic::Ordering::Relaxed) {
                    return;
                }
                let p = progress.load(std::sync::atomic::Ordering::Relaxed);
                if p == last {
                    idle += 1;
                } else {
                    idle = 0;
                    last = p;
                }
                if idle >= 60 {
                    println!("{{\"hang\":true,\"groups_done\":{}}}", p);
                    std::process::exit(3);
                }
            }
        });
    }
    let mut tot = reader::fa::Stats { cases: 0, events: 0, recs: 0, panics: 0 };
    for h in handles {
        let s = h.join().expect("shard thread");
        tot.cases += s.cases;
        tot.events += s.events;
        tot.recs += s.recs;
        tot.panics += s.panics;
    }
    finished.store(true, std::sync::atomic::Ordering::Relaxed);
    println!("{{\"cases\":{},\"events\":{},\"recs\":{},\"panics\":{},\"shards\":{}}}", tot.cases, tot.events, tot.recs, tot.panics, shards);
}

fn cmd_replay_reader(args: &[String]) {
    let path = args.get(0).cloned().unwrap_or_else(|| usage());
    let v: Value = serde_json::from_str(&std::fs::read_to_string(&path).expect("case file")).expect("case json");
    let cv = if v.get("case").is_some() { v["case"].clone() } else { v };
    let c = gen::Case::parse(&cv);
    let mut out = String::new();
    let mut st = reader::fa::Stats { cases: 0, events: 0, recs: 0, panics: 0 };
    run_one(&c.fmt.clone(), &c, &mut out, &mut st, true);
    print!("{}", out);
}

fn main() {
    // panics of the code under test are data; keep stderr quiet
    std::panic::set_hook(Box::new(|_| {}));
    let args: Vec<String> = std::env::args().skip(1).collect();
    if args.is_empty() {
        usage();
    }
    match args[0].as_str() {
        "reader" => cmd_reader(&args[1..]),
        "replay-reader" => cmd_replay_reader(&args[1..]),
        "writer" => {
            let a = &args[1..];
            wi::cmd_writer(&arg(a, "--out").unwrap_or_else(|| usage()), arg(a, "--seed").map(|s| s.parse().unwrap()).unwrap_or(1), a.iter().any(|x| x == "--thorough"));
        }
        "iters" => {
            let a = &args[1..];
            wi::cmd_iters(&arg(a, "--out").unwrap_or_else(|| usage()), arg(a, "--seed").map(|s| s.parse().unwrap()).unwrap_or(1), a.iter().any(|x| x == "--thorough"));
        }
        "long-one" => {
            let a = &args[1..];
            long::cmd_long_one(&a[0], a[1].parse().unwrap(), a[2].parse().unwrap());
        }
        "long" => {
            let a = &args[1..];
            long::cmd_long(&arg(a, "--out").unwrap_or_else(|| usage()), arg(a, "--seed").map(|s| s.parse().unwrap()).unwrap_or(1), a.iter().any(|x| x == "--thorough"));
        }
        "par-record" => {
            let a = &args[1..];
            let cfgs: Value = serde_json::from_str(&std::fs::read_to_string(arg(a, "--cfgs").unwrap_or_else(|| usage())).unwrap()).unwrap();
            par::cmd_record(&cfgs, &arg(a, "--out").unwrap_or_else(|| usage()), arg(a, "--seed").map(|s| s.parse().unwrap()).unwrap_or(1), arg(a, "--reps").map(|s| s.parse().unwrap()).unwrap_or(1));
        }
        "par-steer" => {
            let a = &args[1..];
            par::cmd_steer(&arg(a, "--sched").unwrap_or_else(|| usage()), &arg(a, "--out").unwrap_or_else(|| usage()));
        }
        "par-api" => {
            let a = &args[1..];
            let suite: Value = serde_json::from_str(&std::fs::read_to_string(arg(a, "--suite").unwrap_or_else(|| usage())).unwrap()).unwrap();
            par::cmd_api(&suite, &arg(a, "--out").unwrap_or_else(|| usage()), arg(a, "--seed").map(|s| s.parse().unwrap()).unwrap_or(1));
        }
        _ => usage(),
    }
}
