//! Counting global allocator. Counts allocations (alloc + realloc + alloc_zeroed) per thread,
//! so that a measurement window around one library call on one thread is not disturbed by what
//! other threads do.
use std::alloc::{GlobalAlloc, Layout, System};
use std::cell::Cell;

pub struct Counting;

thread_local! {
    static COUNT: Cell<u64> = const { Cell::new(0) };
    static PAUSED: Cell<u32> = const { Cell::new(0) };
}

#[inline]
fn bump() {
    // try_with: the TLS slot may already be destroyed during thread shutdown
    if PAUSED.try_with(|p| p.get()).unwrap_or(1) == 0 {
        let _ = COUNT.try_with(|c| c.set(c.get() + 1));
    }
}

/// While a `Pause` is alive, allocations of this thread are not counted (used by the harness's
/// own scripted source / policy, whose logging must not be charged to the library).
pub struct Pause;
impl Pause {
    pub fn new() -> Pause {
        let _ = PAUSED.try_with(|p| p.set(p.get() + 1));
        Pause
    }
}
impl Drop for Pause {
    fn drop(&mut self) {
        let _ = PAUSED.try_with(|p| p.set(p.get().saturating_sub(1)));
    }
}

unsafe impl GlobalAlloc for Counting {
    unsafe fn alloc(&self, l: Layout) -> *mut u8 {
        bump();
        System.alloc(l)
    }
    unsafe fn dealloc(&self, p: *mut u8, l: Layout) {
        System.dealloc(p, l)
    }
    unsafe fn alloc_zeroed(&self, l: Layout) -> *mut u8 {
        bump();
        System.alloc_zeroed(l)
    }
    unsafe fn realloc(&self, p: *mut u8, l: Layout, n: usize) -> *mut u8 {
        bump();
        System.realloc(p, l, n)
    }
}

/// number of allocations made by the calling thread so far
#[inline]
pub fn count() -> u64 {
    COUNT.try_with(|c| c.get()).unwrap_or(0)
}
