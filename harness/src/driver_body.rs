// Shared body of the FASTA and FASTQ reader drivers; `include!`d into `mod fa` / `mod fq` of
// reader.rs, where `m` is the seq_io module and `rec_json`, `err_json`, `pos_json`,
// `candidates`, `FMT` are the format-specific pieces. Records what the API returns; no oracle.

use crate::gen::{Case, Op};
use crate::policy::{GrowLog, ScriptPolicy};
use crate::source::{IoEv, ScriptSrc};
use crate::util::*;
use std::cell::RefCell;
use std::panic::{catch_unwind, AssertUnwindSafe};
use std::rc::Rc;

type Rdr = m::Reader<ScriptSrc, ScriptPolicy>;

fn io_json(log: &[IoEv]) -> String {
    let mut s = String::from("[");
    for (i, e) in log.iter().enumerate() {
        if i > 0 {
            s.push(',');
        }
        match e {
            IoEv::Read(w, n) => s.push_str(&format!("{{\"t\":\"r\",\"a\":{},\"g\":{},\"e\":\"\"}}", w, n)),
            IoEv::Intr(w) => s.push_str(&format!("{{\"t\":\"r\",\"a\":{},\"g\":0,\"e\":\"interrupted\"}}", w)),
            IoEv::ReadErr(w, k) => s.push_str(&format!("{{\"t\":\"r\",\"a\":{},\"g\":0,\"e\":\"{}\"}}", w, k)),
            IoEv::Seek(p) => s.push_str(&format!("{{\"t\":\"s\",\"a\":{},\"g\":0,\"e\":\"\"}}", p)),
            IoEv::SeekErr(p, k) => s.push_str(&format!("{{\"t\":\"s\",\"a\":{},\"g\":0,\"e\":\"{}\"}}", p, k)),
        }
    }
    s.push(']');
    s
}

fn grow_json(log: &GrowLog) -> String {
    let v = std::mem::take(&mut *log.borrow_mut());
    let mut s = String::from("[");
    for (i, (p, c, a)) in v.iter().enumerate() {
        if i > 0 {
            s.push(',');
        }
        s.push_str(&format!("{{\"c\":{},\"a\":{},\"p\":{}}}", c, a, p.json()));
    }
    s.push(']');
    s
}

fn snap_cap(r: &Rdr) -> i64 {
    r.verif_snapshot().iter().find(|(k, _)| *k == "cap").map(|(_, v)| *v).unwrap_or(-1)
}

fn snap_json(r: &Rdr) -> String {
    let v = r.verif_snapshot();
    let mut s = String::from("{");
    let mut first = true;
    let mut seqpos = vec![];
    for (k, val) in v {
        if k == "seq_pos" {
            seqpos.push(val);
            continue;
        }
        if !first {
            s.push(',');
        }
        first = false;
        s.push_str(&format!("\"{}\":{}", k, val));
    }
    s.push_str(&format!(",\"seq_pos\":{:?}}}", seqpos));
    s
}

fn sets_json(slots: &[m::RecordSet], views: bool) -> (String, bool) {
    // iterating a set may panic if the library left it inconsistent: that is data
    let r = catch_unwind(AssertUnwindSafe(|| {
        let mut s = String::from("[");
        for (i, set) in slots.iter().enumerate() {
            if i > 0 {
                s.push(',');
            }
            s.push('[');
            let mut n = 0;
            for rec in set {
                if n > 0 {
                    s.push(',');
                }
                n += 1;
                s.push_str(&rec_json(&rec, views, false));
            }
            s.push(']');
        }
        s.push(']');
        s
    }));
    match r {
        Ok(s) => (s, false),
        Err(_) => ("[]".to_string(), true),
    }
}

pub struct Stats {
    pub cases: u64,
    pub events: u64,
    pub recs: u64,
    pub panics: u64,
}

/// Runs one case on the real reader and appends its events (ndjson) to `out`.
/// Returns the number of source calls made (used to place faults).
pub fn run_case(c: &Case, out: &mut String, st: &mut Stats, snapshots: bool) -> usize {
    st.cases += 1;
    out.push_str(&format!(
        "{{\"ev\":\"reset\",\"fmt\":\"{}\",\"input\":{},\"cap\":{},\"slots\":{},\"grp\":{},\"first\":{},\"pp\":\"{}\",\"fault\":{},\"intr\":{},\"pol\":{},\"case\":{}}}\n",
        FMT,
        // a source whose very first read reports the end of the input has delivered an empty input
        if c.chunks.first() == Some(&crate::source::EOF_NOW) { "[]".to_string() } else { jb(&c.x) },
        c.cap,
        c.slots,
        c.grp,
        c.first,
        c.pp,
        c.fault_at > 0,
        c.intr_every > 0,
        c.pol.json(),
        jstr(&c.json())
    ));
    st.events += 1;
    // "seek_interrupted": an Interrupted error raised by a seek of the source (reads that are interrupted are retried; seeks are not)
    let fk: &'static str = if c.fault_kind == "seek_interrupted" { "seek_interrupted" } else { crate::source::kind_name(crate::source::kind_of(&c.fault_kind)) };
    let src = ScriptSrc::new(c.x.clone(), c.chunks.clone(), c.intr_every, c.fault_at, fk);
    let glog: GrowLog = Rc::new(RefCell::new(vec![]));
    let mut reader: Option<Rdr> = Some(m::Reader::with_capacity(src.clone(), c.cap).set_policy(ScriptPolicy::new(c.pol.clone(), glog.clone())));
    let mut slots: Vec<m::RecordSet> = (0..c.slots.max(1)).map(|_| m::RecordSet::default()).collect();
    let mut reported: Vec<(u64, u64)> = vec![];
    let cands = candidates(&c.x);
    let maxcalls = 4 * c.x.len() + 24 + c.ops.len();
    let mut ncalls = 0usize;
    let mut nonrec = 0usize;
    let mut opi = 0usize;
    let mut into_iter: Option<m::RecordsIntoIter<ScriptSrc, ScriptPolicy>> = None;

    loop {
        let (op, in_tail) = if opi < c.ops.len() { (c.ops[opi].clone(), false) } else { (c.tail.clone(), true) };
        opi += 1;
        ncalls += 1;
        if ncalls > maxcalls {
            break;
        }
        let mut ev = String::with_capacity(256);
        let mut stop = false;
        let mut was_rec = false;
        if c.into {
            // owned iterator that consumes the reader
            if into_iter.is_none() {
                into_iter = Some(reader.take().unwrap().into_records());
            }
            let it = into_iter.as_mut().unwrap();
            let r = catch_unwind(AssertUnwindSafe(|| {
                let res = it.next();
                match res {
                    None => ("{\"k\":\"none\"}".to_string(), false),
                    Some(Err(e)) => (err_json(&e), false),
                    Some(Ok(o)) => (owned_json(&o, c.serde), true),
                }
            }));
            let (res, isrec) = match r {
                Ok(x) => x,
                Err(p) => {
                    stop = true;
                    st.panics += 1;
                    (panic_json(&p), false)
                }
            };
            was_rec = isrec;
            ev.push_str(&format!(
                "{{\"ev\":\"call\",\"op\":\"iter\",\"slot\":0,\"n\":0,\"to\":[],\"res\":{},\"pos\":[],\"io\":{},\"grow\":{},\"cap\":-1,\"alloc\":{}}}\n",
                res,
                io_json(&src.take_log()),
                grow_json(&glog),
                -1
            ));
        } else {
            let rdr = reader.as_mut().unwrap();
            match op {
                Op::Next | Op::Iter => {
                    let is_iter = op == Op::Iter;
                    let mut alloc = 0u64;
                    let r = catch_unwind(AssertUnwindSafe(|| {
                        if is_iter {
                            let a0 = crate::alloc::count();
                            let res = rdr.records().next();
                            alloc = crate::alloc::count() - a0;
                            match res {
                                None => ("{\"k\":\"none\"}".to_string(), false),
                                Some(Err(e)) => (err_json(&e), false),
                                Some(Ok(o)) => (owned_json(&o, c.serde), true),
                            }
                        } else {
                            let a0 = crate::alloc::count();
                            let res = rdr.next();
                            alloc = crate::alloc::count() - a0;
                            match res {
                                None => ("{\"k\":\"none\"}".to_string(), false),
                                Some(Err(e)) => (err_json(&e), false),
                                Some(Ok(rec)) => (rec_json(&rec, c.views, c.serde), true),
                            }
                        }
                    }));
                    let (res, isrec) = match r {
                        Ok(x) => x,
                        Err(p) => {
                            stop = true;
                            st.panics += 1;
                            (panic_json(&p), false)
                        }
                    };
                    was_rec = isrec;
                    let pos = if stop { None } else { pos_of(rdr) };
                    if let (Some(p), true) = (pos, isrec) {
                        reported.push(p);
                    }
                    ev.push_str(&format!(
                        "{{\"ev\":\"call\",\"op\":\"{}\",\"slot\":0,\"n\":0,\"to\":[],\"res\":{},\"pos\":{},\"io\":{},\"grow\":{},\"cap\":{},\"alloc\":{}",
                        if is_iter { "iter" } else { "next" },
                        res,
                        pos_json(pos),
                        io_json(&src.take_log()),
                        grow_json(&glog),
                        if stop { -1 } else { snap_cap(rdr) },
                        if c.alloc { alloc as i64 } else { -1 }
                    ));
                    if snapshots && !stop {
                        ev.push_str(&format!(",\"snap\":{}", snap_json(rdr)));
                    }
                    ev.push_str("}\n");
                }
                Op::Set(s) | Op::Exact(s, _) => {
                    let s = s % slots.len();
                    let n = if let Op::Exact(_, n) = op { n } else { 0 };
                    let mut alloc = 0u64;
                    let r = catch_unwind(AssertUnwindSafe(|| {
                        let a0 = crate::alloc::count();
                        let res = if n > 0 { rdr.read_record_set_exact(&mut slots[s], Some(n)) } else { rdr.read_record_set(&mut slots[s]) };
                        alloc = crate::alloc::count() - a0;
                        match res {
                            None => ("{\"k\":\"none\"}".to_string(), false),
                            Some(Err(e)) => (err_json(&e), false),
                            Some(Ok(())) => ("{\"k\":\"ok\"}".to_string(), true),
                        }
                    }));
                    let (res, isrec) = match r {
                        Ok(x) => x,
                        Err(p) => {
                            stop = true;
                            st.panics += 1;
                            (panic_json(&p), false)
                        }
                    };
                    was_rec = isrec;
                    let pos = if stop { None } else { pos_of(rdr) };
                    if let (Some(p), true) = (pos, isrec) {
                        reported.push(p);
                    }
                    let (sets, sp) = sets_json(&slots, c.views);
                    if sp {
                        st.panics += 1;
                        stop = true;
                    }
                    let bufcaps: Vec<usize> = slots.iter().map(|s| s.buf_capacity()).collect();
                    let setlens: Vec<usize> = slots.iter().map(|s| s.len()).collect();
                    let setempty: Vec<bool> = slots.iter().map(|s| s.is_empty()).collect();
                    ev.push_str(&format!(
                        "{{\"ev\":\"call\",\"setlens\":{:?},\"setempty\":{:?},\"op\":\"{}\",\"slot\":{},\"n\":{},\"to\":[],\"res\":{},\"pos\":{},\"io\":{},\"grow\":{},\"cap\":{},\"alloc\":{},\"sets\":{},\"sets_panic\":{},\"setcap\":{:?}",
                        setlens,
                        setempty,
                        if n > 0 { "exact" } else { "set" },
                        s + 1,
                        n.min(i32::MAX as usize),
                        res,
                        pos_json(pos),
                        io_json(&src.take_log()),
                        grow_json(&glog),
                        if stop && !sp { -1 } else { snap_cap(rdr) },
                        if c.alloc { alloc as i64 } else { -1 },
                        sets,
                        sp,
                        bufcaps
                    ));
                    if snapshots && !stop {
                        ev.push_str(&format!(",\"snap\":{}", snap_json(rdr)));
                    }
                    ev.push_str("}\n");
                }
                Op::SeekR(_) | Op::SeekL(_) | Op::SeekP(_, _) => {
                    let target = match op {
                        Op::SeekR(i) => {
                            if reported.is_empty() {
                                None
                            } else {
                                Some(reported[i % reported.len()])
                            }
                        }
                        Op::SeekL(i) => {
                            if cands.is_empty() {
                                None
                            } else {
                                Some(cands[i % cands.len()])
                            }
                        }
                        Op::SeekP(l, b) => Some((l, b)),
                        _ => None,
                    };
                    let (line, byte) = match target {
                        Some(t) => t,
                        None => {
                            // nothing to seek to: skip this op silently
                            ncalls -= 1;
                            if in_tail {
                                break;
                            }
                            continue;
                        }
                    };
                    let r = catch_unwind(AssertUnwindSafe(|| match rdr.seek(&m::Position::new(line, byte)) {
                        Ok(()) => "{\"k\":\"ok\"}".to_string(),
                        Err(e) => err_json(&e),
                    }));
                    let res = match r {
                        Ok(x) => x,
                        Err(p) => {
                            stop = true;
                            st.panics += 1;
                            panic_json(&p)
                        }
                    };
                    was_rec = true;
                    let pos = if stop { None } else { pos_of(rdr) };
                    ev.push_str(&format!(
                        "{{\"ev\":\"call\",\"op\":\"seek\",\"slot\":0,\"n\":0,\"to\":[{},{}],\"res\":{},\"pos\":{},\"io\":{},\"grow\":{},\"cap\":{},\"alloc\":-1",
                        line,
                        byte,
                        res,
                        pos_json(pos),
                        io_json(&src.take_log()),
                        grow_json(&glog),
                        if stop { -1 } else { snap_cap(rdr) }
                    ));
                    if snapshots && !stop {
                        ev.push_str(&format!(",\"snap\":{}", snap_json(rdr)));
                    }
                    ev.push_str("}\n");
                }
                Op::Pol(p) => {
                    let old = reader.take().unwrap();
                    reader = Some(old.set_policy(ScriptPolicy::new(p.clone(), glog.clone())));
                    was_rec = true;
                    let rdr = reader.as_mut().unwrap();
                    ev.push_str(&format!(
                        "{{\"ev\":\"call\",\"op\":\"set_policy\",\"slot\":0,\"n\":0,\"to\":[],\"res\":{{\"k\":\"ok\"}},\"pos\":{},\"io\":[],\"grow\":[],\"cap\":{},\"alloc\":-1,\"pol\":{}}}\n",
                        pos_json(pos_of(rdr)),
                        snap_cap(rdr),
                        p.json()
                    ));
                }
                Op::Shrink(s) => {
                    let s = s % slots.len();
                    was_rec = true;
                    let before = slots[s].buf_capacity();
                    slots[s].shrink_buffer_to_fit();
                    let (sets, sp) = sets_json(&slots, c.views);
                    if sp {
                        st.panics += 1;
                        stop = true;
                    }
                    let bufcaps: Vec<usize> = slots.iter().map(|s| s.buf_capacity()).collect();
                    let setlens: Vec<usize> = slots.iter().map(|s| s.len()).collect();
                    let setempty: Vec<bool> = slots.iter().map(|s| s.is_empty()).collect();
                    ev.push_str(&format!(
                        "{{\"ev\":\"call\",\"setlens\":{:?},\"setempty\":{:?},\"op\":\"shrink\",\"slot\":{},\"n\":{},\"to\":[],\"res\":{{\"k\":\"ok\"}},\"pos\":{},\"io\":[],\"grow\":[],\"cap\":{},\"alloc\":-1,\"sets\":{},\"sets_panic\":{},\"setcap\":{:?}}}\n",
                        setlens,
                        setempty,
                        s + 1,
                        before,
                        pos_json(pos_of(rdr)),
                        snap_cap(rdr),
                        sets,
                        sp,
                        bufcaps
                    ));
                }
                Op::Serde(s) => {
                    let s = s % slots.len();
                    was_rec = true;
                    let r = catch_unwind(AssertUnwindSafe(|| {
                        let text = serde_json::to_string(&slots[s]).unwrap();
                        let back: m::RecordSet = serde_json::from_str(&text).unwrap();
                        let mut o = String::from("[");
                        let mut n = 0;
                        for rec in &back {
                            if n > 0 {
                                o.push(',');
                            }
                            n += 1;
                            o.push_str(&rec_json(&rec, c.views, false));
                        }
                        o.push(']');
                        o
                    }));
                    let (recs, res) = match r {
                        Ok(o) => (o, "{\"k\":\"ok\"}".to_string()),
                        Err(p) => {
                            stop = true;
                            st.panics += 1;
                            ("[]".to_string(), panic_json(&p))
                        }
                    };
                    ev.push_str(&format!(
                        "{{\"ev\":\"call\",\"op\":\"serde_set\",\"slot\":{},\"n\":0,\"to\":[],\"res\":{},\"pos\":[],\"io\":[],\"grow\":[],\"cap\":-1,\"alloc\":-1,\"recs\":{}}}\n",
                        s + 1,
                        res,
                        recs
                    ));
                }
            }
        }
        out.push_str(&ev);
        st.events += 1;
        if was_rec {
            st.recs += 1;
        }
        if stop {
            break;
        }
        if in_tail {
            if !was_rec {
                nonrec += 1;
                if nonrec > c.extra {
                    break;
                }
            }
        }
    }
    // final state of all record sets
    let (sets, sp) = sets_json(&slots, false);
    out.push_str(&format!("{{\"ev\":\"end\",\"sets\":{},\"sets_panic\":{}}}\n", sets, sp));
    st.events += 1;
    src.calls()
}
