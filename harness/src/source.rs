//! Scripted `Read + Seek` source: delivers the input in scripted chunk sizes, injects
//! `Interrupted` results and one fault at the k-th source call, and logs every call.
use std::cell::RefCell;
use std::io::{self, Read, Seek, SeekFrom};
use std::rc::Rc;

#[derive(Clone, Debug)]
pub enum IoEv {
    /// read(want) -> got n bytes
    Read(usize, usize),
    /// read(want) -> Interrupted
    Intr(usize),
    /// read(want) -> Err(kind)
    ReadErr(usize, &'static str),
    /// seek(pos) -> ok
    Seek(u64),
    /// seek(pos) -> Err(kind)
    SeekErr(u64, &'static str),
}

pub fn kind_name(k: io::ErrorKind) -> &'static str {
    match k {
        io::ErrorKind::Other => "other",
        io::ErrorKind::PermissionDenied => "permission_denied",
        io::ErrorKind::UnexpectedEof => "unexpected_eof",
        io::ErrorKind::WouldBlock => "would_block",
        io::ErrorKind::Interrupted => "interrupted",
        io::ErrorKind::InvalidData => "invalid_data",
        io::ErrorKind::InvalidInput => "invalid_input",
        io::ErrorKind::TimedOut => "timed_out",
        io::ErrorKind::BrokenPipe => "broken_pipe",
        _ => "unknown",
    }
}

pub fn kind_of(name: &str) -> io::ErrorKind {
    match name {
        "other" => io::ErrorKind::Other,
        "seek_interrupted" => io::ErrorKind::Interrupted,
        "permission_denied" => io::ErrorKind::PermissionDenied,
        "unexpected_eof" => io::ErrorKind::UnexpectedEof,
        "would_block" => io::ErrorKind::WouldBlock,
        "invalid_data" => io::ErrorKind::InvalidData,
        "timed_out" => io::ErrorKind::TimedOut,
        "broken_pipe" => io::ErrorKind::BrokenPipe,
        _ => io::ErrorKind::Other,
    }
}

pub struct SrcState {
    pub data: Vec<u8>,
    pub pos: usize,
    /// chunk sizes, cycled; 0 = as much as wanted
    pub chunks: Vec<usize>,
    pub chunk_i: usize,
    /// every read call whose (1-based) read index is listed returns Interrupted first;
    /// `intr_every` > 0: every intr_every-th read attempt is interrupted
    pub intr_every: usize,
    pub read_attempts: usize,
    /// fault at the k-th source call (1-based, reads that return data/0/err and seeks count;
    /// interrupted attempts do not count), 0 = none
    pub fault_at: usize,
    pub fault_kind: &'static str,
    /// fault only hits seeks (skips reads) if true
    pub calls: usize,
    pub log: Vec<IoEv>,
    /// budget of source calls per case: exceeded = the library is looping
    pub budget: usize,
}

#[derive(Clone)]
pub struct ScriptSrc(pub Rc<RefCell<SrcState>>);

pub const EOF_NOW: usize = 1_000_000;
pub const HANG_MSG: &str = "VERIF-HANG: source call budget exceeded";

impl ScriptSrc {
    pub fn new(data: Vec<u8>, chunks: Vec<usize>, intr_every: usize, fault_at: usize, fault_kind: &'static str) -> ScriptSrc {
        let budget = 2000 + 64 * data.len();
        ScriptSrc(Rc::new(RefCell::new(SrcState {
            data,
            pos: 0,
            chunks: if chunks.is_empty() { vec![0] } else { chunks },
            chunk_i: 0,
            intr_every,
            read_attempts: 0,
            fault_at,
            fault_kind,
            calls: 0,
            log: vec![],
            budget,
        })))
    }
    pub fn take_log(&self) -> Vec<IoEv> {
        std::mem::take(&mut self.0.borrow_mut().log)
    }
    pub fn calls(&self) -> usize {
        self.0.borrow().calls
    }
}

impl Read for ScriptSrc {
    fn read(&mut self, buf: &mut [u8]) -> io::Result<usize> {
        let _p = crate::alloc::Pause::new();
        let mut s = self.0.borrow_mut();
        let want = buf.len();
        if s.budget == 0 {
            drop(s);
            panic!("{}", HANG_MSG);
        }
        s.budget -= 1;
        s.read_attempts += 1;
        if s.intr_every > 0 && s.read_attempts % s.intr_every == 0 {
            s.log.push(IoEv::Intr(want));
            return Err(io::Error::new(io::ErrorKind::Interrupted, "scripted interrupt"));
        }
        s.calls += 1;
        if s.fault_at > 0 && s.calls == s.fault_at && s.fault_kind != "seek_interrupted" {
            let k = s.fault_kind;
            s.log.push(IoEv::ReadErr(want, k));
            return Err(io::Error::new(kind_of(k), "scripted fault"));
        }
        let c = s.chunks[s.chunk_i % s.chunks.len()];
        s.chunk_i += 1;
        let avail = s.data.len().saturating_sub(s.pos);
        let mut n = want.min(avail);
        if c > 0 {
            n = n.min(c);
        }
        // chunk value 1 000 000: this call reports the end of the input (0 bytes) although data remain
        if c == EOF_NOW {
            n = 0;
        }
        let p = s.pos.min(s.data.len());
        buf[..n].copy_from_slice(&s.data[p..p + n]);
        s.pos += n;
        s.log.push(IoEv::Read(want, n));
        Ok(n)
    }
}

impl Seek for ScriptSrc {
    fn seek(&mut self, to: SeekFrom) -> io::Result<u64> {
        let _p = crate::alloc::Pause::new();
        let mut s = self.0.borrow_mut();
        if s.budget == 0 {
            drop(s);
            panic!("{}", HANG_MSG);
        }
        s.budget -= 1;
        s.calls += 1;
        let target = match to {
            SeekFrom::Start(p) => p as i64,
            SeekFrom::Current(d) => s.pos as i64 + d,
            SeekFrom::End(d) => s.data.len() as i64 + d,
        };
        if s.fault_at > 0 && s.calls == s.fault_at {
            let k = s.fault_kind;
            s.log.push(IoEv::SeekErr(target.max(0) as u64, k));
            return Err(io::Error::new(kind_of(k), "scripted fault"));
        }
        if target < 0 {
            s.log.push(IoEv::SeekErr(0, "invalid_input"));
            return Err(io::Error::new(io::ErrorKind::InvalidInput, "negative seek"));
        }
        s.pos = target as usize;
        s.log.push(IoEv::Seek(target as u64));
        Ok(target as u64)
    }
}
