//! Drivers for the writing functions (C10, C11) and for the iterators the library hands out
//! (C20). Pure enumeration of requests / step sequences; outputs are logged, never judged here.
use crate::gen::Rng;
use crate::util::*;
use seq_io::{fasta, fastq};
use std::io::Write;

/// A legal but awkward `io::Write`: accepts at most 3 bytes per `write` call and uses the trait's default
/// `write_vectored` (which writes only the first non-empty slice). Writers that ignore short writes lose data here.
pub struct ShortSink(pub Vec<u8>);
impl Write for ShortSink {
    fn write(&mut self, buf: &[u8]) -> std::io::Result<usize> {
        let n = buf.len().min(3);
        self.0.extend_from_slice(&buf[..n]);
        Ok(n)
    }
    fn flush(&mut self) -> std::io::Result<()> {
        Ok(())
    }
}

fn split_head(h: &[u8]) -> (Vec<u8>, Option<Vec<u8>>) {
    match h.iter().position(|b| *b == b' ') {
        None => (h.to_vec(), None),
        Some(i) => (h[..i].to_vec(), Some(h[i + 1..].to_vec())),
    }
}

fn strings(alpha: &[u8], max: usize) -> Vec<Vec<u8>> {
    let mut out = vec![vec![]];
    let mut frontier = vec![vec![]];
    for _ in 0..max {
        let mut nf = vec![];
        for x in &frontier {
            for &b in alpha {
                let mut y: Vec<u8> = x.clone();
                y.push(b);
                nf.push(y);
            }
        }
        out.extend(nf.iter().cloned());
        frontier = nf;
    }
    out
}

/// chunkings of s: every composition (for short s), each also with empty chunks inserted
fn chunkings(s: &[u8], rng: &mut Rng, limit: usize) -> Vec<Vec<Vec<u8>>> {
    let n = s.len();
    let mut out = vec![];
    let total = if n == 0 { 1 } else { 1usize << (n - 1) };
    let mut masks: Vec<usize> = (0..total).collect();
    if masks.len() > limit {
        let mut pick = vec![0, total - 1];
        while pick.len() < limit {
            pick.push(rng.below(total));
        }
        masks = pick;
    }
    for m in masks {
        let mut chunks = vec![];
        let mut cur = vec![];
        for i in 0..n {
            cur.push(s[i]);
            if i + 1 == n || (m >> i) & 1 == 1 {
                chunks.push(std::mem::take(&mut cur));
            }
        }
        out.push(chunks.clone());
        // with empty chunks: at the start, at the end, after the first chunk
        let mut c2 = chunks.clone();
        c2.insert(0, vec![]);
        out.push(c2);
        let mut c3 = chunks.clone();
        c3.push(vec![]);
        if chunks.len() > 1 {
            c3.insert(1, vec![]);
        }
        out.push(c3);
    }
    out
}

fn jchunks(c: &[Vec<u8>]) -> String {
    format!("[{}]", c.iter().map(|x| jb(x)).collect::<Vec<_>>().join(","))
}

pub fn cmd_writer(out: &str, seed: u64, thorough: bool) {
    let mut rng = Rng::new(seed ^ 0x5151);
    let mut f = std::io::BufWriter::new(std::fs::File::create(out).unwrap());
    let heads: Vec<Vec<u8>> = vec![b"".to_vec(), b"a".to_vec(), b"a b".to_vec(), b" ".to_vec(), b"a  b c".to_vec(), vec![0xC3, 0xA9, b' ', 0xFF], b"id desc;x".to_vec()];
    let maxlen = if thorough { 6 } else { 5 };
    let mut seqs = strings(&[b'A', b'C'], maxlen);
    seqs.push(b"AC GT+@".to_vec());
    seqs.push(b"ACGTACGTACGTACGTACGTA".to_vec());
    let widths: Vec<usize> = if thorough { (1..=8).collect() } else { (1..=6).collect() };
    let mut n = 0usize;
    for (hi, head) in heads.iter().enumerate() {
        let (id, desc) = split_head(head);
        for seq in &seqs {
            // cycle heads over sequences to keep the volume down (every head meets every length)
            if !thorough && (seq.len() + hi) % 3 != 0 && seq.len() > 2 {
                continue;
            }
            let mut o_write_to = vec![];
            fasta::write_to(&mut o_write_to, head, seq).unwrap();
            let mut o_parts = vec![];
            fasta::write_parts(&mut o_parts, &id, desc.as_deref(), seq).unwrap();
            let mut o_head_seq = vec![];
            fasta::write_head(&mut o_head_seq, head).unwrap();
            fasta::write_seq(&mut o_head_seq, seq).unwrap();
            let mut o_iddesc_seq = vec![];
            fasta::write_id_desc(&mut o_iddesc_seq, &id, desc.as_deref()).unwrap();
            fasta::write_seq(&mut o_iddesc_seq, seq).unwrap();
            let owned = fasta::OwnedRecord { head: head.clone(), seq: seq.clone() };
            let mut o_owned = vec![];
            fasta::Record::write(&owned, &mut o_owned).unwrap();
            // the same requests into the short-writing sink
            let mut sk = ShortSink(vec![]);
            fasta::write_to(&mut sk, head, seq).unwrap();
            let s_write_to = std::mem::take(&mut sk.0);
            fasta::write_parts(&mut sk, &id, desc.as_deref(), seq).unwrap();
            let s_parts = std::mem::take(&mut sk.0);
            fasta::Record::write(&owned, &mut sk).unwrap();
            let s_owned = std::mem::take(&mut sk.0);
            let chs = chunkings(seq, &mut rng, 8);
            let mut iters = vec![];
            for c in &chs {
                let mut o = vec![];
                fasta::write_head(&mut o, head).unwrap();
                fasta::write_seq_iter(&mut o, c.iter().map(|x| &x[..])).unwrap();
                iters.push(format!("{{\"chunks\":{},\"out\":{}}}", jchunks(c), jb(&o)));
                // the same chunks through iterators that do not know their length (size hints (1, Some(n)) and (0, Some(n)))
                if !c.is_empty() {
                    let mut o = vec![];
                    fasta::write_head(&mut o, head).unwrap();
                    fasta::write_seq_iter(&mut o, std::iter::once(&c[0][..]).chain(c[1..].iter().map(|x| &x[..]).filter(|_| true))).unwrap();
                    iters.push(format!("{{\"chunks\":{},\"out\":{}}}", jchunks(c), jb(&o)));
                }
                let mut o = vec![];
                fasta::write_head(&mut o, head).unwrap();
                fasta::write_seq_iter(&mut o, c.iter().map(|x| &x[..]).filter(|_| true)).unwrap();
                iters.push(format!("{{\"chunks\":{},\"out\":{}}}", jchunks(c), jb(&o)));
            }
            let mut wraps = vec![];
            // also widths at and just above the sequence length, and near usize::MAX ("do not wrap"); logged clamped to 2^31-1
            let mut ws: Vec<usize> = widths.clone();
            for w in [seq.len(), seq.len() + 1, 1usize << 31, usize::MAX, usize::MAX - 1, usize::MAX - seq.len(), (usize::MAX - seq.len()).saturating_add(1)] {
                if w > 0 && !ws.contains(&w) {
                    ws.push(w);
                }
            }
            for &w in &ws {
                let wlog = w.min(i32::MAX as usize);
                let r = std::panic::catch_unwind(std::panic::AssertUnwindSafe(|| {
                let mut o1 = vec![];
                fasta::write_wrap(&mut o1, &id, desc.as_deref(), seq, w).unwrap();
                let mut o2 = vec![];
                fasta::write_head(&mut o2, head).unwrap();
                fasta::write_wrap_seq(&mut o2, seq, w).unwrap();
                let mut o3 = vec![];
                fasta::Record::write_wrap(&owned, &mut o3, w).unwrap();
                let mut wi = vec![];
                for c in &chs {
                    let mut o = vec![];
                    fasta::write_head(&mut o, head).unwrap();
                    fasta::write_wrap_seq_iter(&mut o, c.iter().map(|x| &x[..]), w).unwrap();
                    wi.push(format!("{{\"chunks\":{},\"out\":{}}}", jchunks(c), jb(&o)));
                    if !c.is_empty() {
                        let mut o = vec![];
                        fasta::write_head(&mut o, head).unwrap();
                        fasta::write_wrap_seq_iter(&mut o, std::iter::once(&c[0][..]).chain(c[1..].iter().map(|x| &x[..]).filter(|_| true)), w).unwrap();
                        wi.push(format!("{{\"chunks\":{},\"out\":{}}}", jchunks(c), jb(&o)));
                    }
                    let mut o = vec![];
                    fasta::write_head(&mut o, head).unwrap();
                    fasta::write_wrap_seq_iter(&mut o, c.iter().map(|x| &x[..]).filter(|_| true), w).unwrap();
                    wi.push(format!("{{\"chunks\":{},\"out\":{}}}", jchunks(c), jb(&o)));
                }
                let mut sk = ShortSink(vec![]);
                fasta::write_wrap(&mut sk, &id, desc.as_deref(), seq, w).unwrap();
                let s1 = std::mem::take(&mut sk.0);
                fasta::Record::write_wrap(&owned, &mut sk, w).unwrap();
                let s3 = std::mem::take(&mut sk.0);
                fasta::write_head(&mut sk, head).unwrap();
                fasta::write_wrap_seq_iter(&mut sk, chs[chs.len() / 2].iter().map(|x| &x[..]), w).unwrap();
                let s4 = std::mem::take(&mut sk.0);
                format!("{{\"w\":{},\"panic\":false,\"write_wrap\":{},\"head_wrap_seq\":{},\"owned_wrap\":{},\"short_write_wrap\":{},\"short_owned_wrap\":{},\"short_iter\":{},\"iters\":[{}]}}", wlog, jb(&o1), jb(&o2), jb(&o3), jb(&s1), jb(&s3), jb(&s4), wi.join(","))
                }));
                match r {
                    Ok(t) => wraps.push(t),
                    Err(_) => wraps.push(format!("{{\"w\":{},\"panic\":true,\"write_wrap\":[],\"head_wrap_seq\":[],\"owned_wrap\":[],\"short_write_wrap\":[],\"short_owned_wrap\":[],\"short_iter\":[],\"iters\":[]}}", wlog)),
                }
            }
            writeln!(
                f,
                "{{\"ev\":\"wfa\",\"head\":{},\"id\":{},\"desc\":{},\"seq\":{},\"write_to\":{},\"write_parts\":{},\"head_seq\":{},\"iddesc_seq\":{},\"owned\":{},\"short\":[{},{},{}],\"iters\":[{}],\"wraps\":[{}]}}",
                jb(head),
                jb(&id),
                jopt(desc.as_deref()),
                jb(seq),
                jb(&o_write_to),
                jb(&o_parts),
                jb(&o_head_seq),
                jb(&o_iddesc_seq),
                jb(&o_owned),
                jb(&s_write_to),
                jb(&s_parts),
                jb(&s_owned),
                iters.join(","),
                wraps.join(",")
            )
            .unwrap();
            n += 1;
        }
    }
    // FASTQ
    let quals = |n: usize, k: usize| -> Vec<u8> { (0..n).map(|i| [b'I', b'+', b'@', b'5'][(i + k) % 4]).collect() };
    for head in heads.iter() {
        let (id, desc) = split_head(head);
        for (si, seq) in seqs.iter().enumerate() {
            if seq.len() > 4 && si % 4 != 0 {
                continue;
            }
            let qual = quals(seq.len(), si);
            let mut o1 = vec![];
            fastq::write_to(&mut o1, head, seq, &qual).unwrap();
            let mut o2 = vec![];
            fastq::write_parts(&mut o2, &id, desc.as_deref(), seq, &qual).unwrap();
            let owned = fastq::OwnedRecord { head: head.clone(), seq: seq.clone(), qual: qual.clone() };
            let mut o3 = vec![];
            fastq::Record::write(&owned, &mut o3).unwrap();
            let mut sk = ShortSink(vec![]);
            fastq::write_to(&mut sk, head, seq, &qual).unwrap();
            let q1 = std::mem::take(&mut sk.0);
            fastq::write_parts(&mut sk, &id, desc.as_deref(), seq, &qual).unwrap();
            let q2 = std::mem::take(&mut sk.0);
            fastq::Record::write(&owned, &mut sk).unwrap();
            let q3 = std::mem::take(&mut sk.0);
            writeln!(
                f,
                "{{\"ev\":\"wfq\",\"head\":{},\"id\":{},\"desc\":{},\"seq\":{},\"qual\":{},\"write_to\":{},\"write_parts\":{},\"owned\":{},\"short\":[{},{},{}]}}",
                jb(head),
                jb(&id),
                jopt(desc.as_deref()),
                jb(seq),
                jb(&qual),
                jb(&o1),
                jb(&o2),
                jb(&o3),
                jb(&q1),
                jb(&q2),
                jb(&q3)
            )
            .unwrap();
            n += 1;
        }
    }
    // many records back to back, re-read by the real readers
    let nmany = if thorough { 600 } else { 150 };
    for k in 0..nmany {
        let nrec = 1 + rng.below(5);
        let fq = k % 2 == 1;
        let wrap = if fq || rng.chance(1, 3) { 0 } else { 1 + rng.below(6) };
        let mut out_b = vec![];
        let mut recs = vec![];
        for _ in 0..nrec {
            let head = rng.pick(&heads).clone();
            let seq = rng.pick(&seqs).clone();
            if fq {
                let qual = quals(seq.len(), rng.below(4));
                match rng.below(3) {
                    0 => fastq::write_to(&mut out_b, &head, &seq, &qual).unwrap(),
                    1 => {
                        let (id, desc) = split_head(&head);
                        fastq::write_parts(&mut out_b, &id, desc.as_deref(), &seq, &qual).unwrap()
                    }
                    _ => fastq::Record::write(&fastq::OwnedRecord { head: head.clone(), seq: seq.clone(), qual: qual.clone() }, &mut out_b).unwrap(),
                }
                recs.push(format!("{{\"head\":{},\"seq\":{},\"qual\":{}}}", jb(&head), jb(&seq), jb(&qual)));
            } else {
                if wrap == 0 {
                    fasta::write_to(&mut out_b, &head, &seq).unwrap();
                } else {
                    let (id, desc) = split_head(&head);
                    fasta::write_wrap(&mut out_b, &id, desc.as_deref(), &seq, wrap).unwrap();
                }
                recs.push(format!("{{\"head\":{},\"seq\":{},\"qual\":[]}}", jb(&head), jb(&seq)));
            }
        }
        // what the real reader makes of it
        let mut reparsed = vec![];
        if fq {
            let mut r = fastq::Reader::with_capacity(&out_b[..], 16);
            while let Some(Ok(rec)) = r.next() {
                use fastq::Record;
                reparsed.push(format!("{{\"head\":{},\"seq\":{},\"qual\":{}}}", jb(rec.head()), jb(rec.seq()), jb(rec.qual())));
            }
        } else {
            let mut r = fasta::Reader::with_capacity(&out_b[..], 16);
            while let Some(Ok(rec)) = r.next() {
                use fasta::Record;
                reparsed.push(format!("{{\"head\":{},\"seq\":{},\"qual\":[]}}", jb(rec.head()), jb(&rec.owned_seq())));
            }
        }
        writeln!(f, "{{\"ev\":\"wmany\",\"fmt\":\"{}\",\"wrap\":{},\"recs\":[{}],\"out\":{},\"reparsed\":[{}]}}", if fq { "fastq" } else { "fasta" }, wrap, recs.join(","), jb(&out_b), reparsed.join(",")).unwrap();
        n += 1;
    }
    f.flush().unwrap();
    println!("{{\"cases\":{}}}", n);
}

// ------------------------------------------------------------------------------------------
// iterators

/// step sequences for SeqLines: f = next, b = next_back, z = nth(0), 1 = nth(1), 3 = nth(3), r = nth_back(1), y = nth_back(0)
fn step_seqs(max: usize) -> Vec<Vec<u8>> {
    let mut v = strings(&[b'f', b'b'], max);
    for s in strings(&[b'f', b'b', b'z', b'1', b'3', b'r', b'y'], max.min(4)) {
        if s.iter().any(|c| *c != b'f' && *c != b'b') {
            v.push(s);
        }
    }
    v
}

pub fn cmd_iters(out: &str, seed: u64, thorough: bool) {
    use fasta::Record;
    let mut rng = Rng::new(seed ^ 0x1717);
    let mut f = std::io::BufWriter::new(std::fs::File::create(out).unwrap());
    let mut n = 0usize;
    let maxn = if thorough { 5 } else { 4 };
    for nl in 0..=maxn {
        for variant in 0..4 {
            // a record with nl sequence lines (variant: LF / CRLF / no final terminator + an empty line / lines that start with ';' or '>'-free punctuation)
            let mut x = b">h d".to_vec();
            let eol: &[u8] = if variant == 1 { b"\r\n" } else { b"\n" };
            x.extend(eol);
            for i in 0..nl {
                if variant == 2 && i == 1 {
                    // an empty line inside the sequence
                } else {
                    if variant == 3 && i % 2 == 1 {
                        x.push(b';');
                    }
                    if variant == 3 && i == 2 {
                        x.push(b'#');
                    }
                    for k in 0..=(i % 3) {
                        x.push(b'A' + (i as u8) + k as u8);
                    }
                }
                if !(variant == 2 && i + 1 == nl) {
                    x.extend(eol);
                }
            }
            for steps in step_seqs(nl + 2) {
                for cap in [3usize, 64] {
                    let mut rdr = fasta::Reader::with_capacity(&x[..], cap);
                    let rec = match rdr.next() {
                        Some(Ok(r)) => r,
                        _ => continue,
                    };
                    let r = std::panic::catch_unwind(std::panic::AssertUnwindSafe(|| {
                        let mut it = rec.seq_lines();
                        let (lo, hi) = it.size_hint();
                        let pre = format!("{{\"len\":{},\"lo\":{},\"hi\":{}}}", it.len(), lo, hi.map(|h| h as i64).unwrap_or(-1));
                        let mut evs = vec![];
                        for s in &steps {
                            let (dir, k, item) = match *s {
                                b'f' => ('f', 0, it.next()),
                                b'b' => ('b', 0, it.next_back()),
                                b'z' => ('f', 0, it.nth(0)),
                                b'1' => ('f', 1, it.nth(1)),
                                b'3' => ('f', 3, it.nth(3)),
                                b'r' => ('b', 1, it.nth_back(1)),
                                _ => ('b', 0, it.nth_back(0)),
                            };
                            let (lo, hi) = it.size_hint();
                            evs.push(format!(
                                "{{\"s\":\"{}\",\"k\":{},\"via\":\"{}\",\"some\":{},\"item\":{},\"len\":{},\"lo\":{},\"hi\":{}}}",
                                dir,
                                k,
                                if *s == b'f' || *s == b'b' { "next" } else { "nth" },
                                item.is_some(),
                                jb(item.unwrap_or(b"")),
                                it.len(),
                                lo,
                                hi.map(|h| h as i64).unwrap_or(-1)
                            ));
                        }
                        (pre, evs)
                    }));
                    match r {
                        Ok((pre, evs)) => writeln!(f, "{{\"ev\":\"seqlines\",\"input\":{},\"cap\":{},\"pre\":{},\"steps\":[{}],\"panic\":false}}", jb(&x), cap, pre, evs.join(",")).unwrap(),
                        Err(_) => writeln!(f, "{{\"ev\":\"seqlines\",\"input\":{},\"cap\":{},\"pre\":{{\"len\":0,\"lo\":0,\"hi\":0}},\"steps\":[],\"panic\":true}}", jb(&x), cap).unwrap(),
                    }
                    n += 1;
                }
            }
            // adaptors that rely on len()/size_hint(), after kf front and kb back steps
            for kf in 0..=nl {
                for kb in 0..=(nl - kf) {
                    let mut rdr = fasta::Reader::with_capacity(&x[..], 64);
                    let rec = match rdr.next() {
                        Some(Ok(r)) => r,
                        _ => continue,
                    };
                    let mk = || {
                        let mut it = rec.seq_lines();
                        for _ in 0..kf {
                            it.next();
                        }
                        for _ in 0..kb {
                            it.next_back();
                        }
                        it
                    };
                    let r = std::panic::catch_unwind(std::panic::AssertUnwindSafe(|| {
                        let enum_rev: Vec<String> = mk().enumerate().rev().map(|(i, l)| format!("{{\"i\":{},\"l\":{}}}", i, jb(l))).collect();
                        let rev: Vec<String> = mk().rev().map(jb).collect();
                        let zip: Vec<String> = mk().zip(10..).map(|(l, i)| format!("{{\"i\":{},\"l\":{}}}", i, jb(l))).collect();
                        let skip1: Vec<String> = mk().skip(1).map(jb).collect();
                        let skips: Vec<String> = (0..=(nl + 1)).map(|k| format!("[{}]", mk().skip(k).map(jb).collect::<Vec<_>>().join(","))).collect();
                        let step2: Vec<String> = mk().step_by(2).map(jb).collect();
                        // a skip beyond the end reports the end; the iterator it leaves behind has nothing more to give
                        let mut it = mk();
                        let skip_far_none = it.by_ref().skip(nl + 1).next().is_none();
                        let left_len = it.len();
                        let left_next_none = it.next().is_none();
                        let collect: Vec<String> = mk().collect::<Vec<_>>().into_iter().map(jb).collect();
                        let count = mk().count();
                        let last = mk().last().map(|l| format!("[{}]", jb(l))).unwrap_or_else(|| "[]".into());
                        let rposition = mk().rposition(|l| l.is_empty() || !l.is_empty()).map(|p| p as i64).unwrap_or(-1);
                        format!(
                            "\"skips\":[{}],\"step2\":[{}],\"skip_far\":{{\"none\":{},\"left_len\":{},\"left_next_none\":{}}},\"enum_rev\":[{}],\"rev\":[{}],\"zip\":[{}],\"skip1\":[{}],\"collect\":[{}],\"count\":{},\"last\":{},\"rposition\":{}",
                            skips.join(","),
                            step2.join(","),
                            skip_far_none,
                            left_len,
                            left_next_none,
                            enum_rev.join(","),
                            rev.join(","),
                            zip.join(","),
                            skip1.join(","),
                            collect.join(","),
                            count,
                            last,
                            rposition
                        )
                    }));
                    match r {
                        Ok(s) => writeln!(f, "{{\"ev\":\"adapt\",\"input\":{},\"kf\":{},\"kb\":{},\"panic\":false,{}}}", jb(&x), kf, kb, s).unwrap(),
                        Err(_) => writeln!(f, "{{\"ev\":\"adapt\",\"input\":{},\"kf\":{},\"kb\":{},\"panic\":true,\"skips\":[],\"step2\":[],\"skip_far\":{{\"none\":true,\"left_len\":0,\"left_next_none\":true}},\"enum_rev\":[],\"rev\":[],\"zip\":[],\"skip1\":[],\"collect\":[],\"count\":0,\"last\":[],\"rposition\":-1}}", jb(&x), kf, kb).unwrap(),
                    }
                    n += 1;
                }
            }
        }
    }
    // record set iterators and owned-record iterators: every item once, fused at the end
    let nsets = if thorough { 2000 } else { 300 };
    for k in 0..nsets {
        let fmt = if k % 2 == 0 { "fasta" } else { "fastq" };
        let x = crate::gen::rand_struct(&mut rng, fmt, &serde_json::json!({"maxrec": 5, "maxfield": 4, "damage": 10}));
        let cap = *rng.pick(&[3usize, 8, 16, 64]);
        let mut sets: Vec<String> = vec![];
        let mut owned_after: Vec<bool> = vec![];
        let hints_ok = true;
        if fmt == "fasta" {
            let mut rdr = fasta::Reader::with_capacity(&x[..], cap);
            let mut set = fasta::RecordSet::default();
            while let Some(Ok(())) = rdr.read_record_set(&mut set) {
                let mut it = (&set).into_iter();
                let mut items = vec![];
                let mut hints = vec![];
                loop {
                    let (lo, hi) = it.size_hint();
                    hints.push(format!("[{},{}]", lo, hi.map(|h| h as i64).unwrap_or(-1)));
                    match it.next() {
                        Some(r) => items.push(crate::reader::fa::rec_json(&r, false, false)),
                        None => break,
                    }
                }
                let (lo, hi) = it.size_hint();
                hints.push(format!("[{},{}]", lo, hi.map(|h| h as i64).unwrap_or(-1)));
                let after: Vec<bool> = (0..3).map(|_| it.next().is_none()).collect();
                sets.push(format!("{{\"len\":{},\"items\":[{}],\"after\":{:?},\"hints\":[{}]}}", set.len(), items.join(","), after, hints.join(",")));
            }
            let mut rdr2 = fasta::Reader::with_capacity(&x[..], cap);
            let mut it = rdr2.records();
            while let Some(Ok(_)) = it.next() {}
            owned_after = (0..3).map(|_| it.next().is_none()).collect();
        } else {
            let mut rdr = fastq::Reader::with_capacity(&x[..], cap);
            let mut set = fastq::RecordSet::default();
            while let Some(Ok(())) = rdr.read_record_set(&mut set) {
                let mut it = (&set).into_iter();
                let mut items = vec![];
                let mut hints = vec![];
                loop {
                    let (lo, hi) = it.size_hint();
                    hints.push(format!("[{},{}]", lo, hi.map(|h| h as i64).unwrap_or(-1)));
                    match it.next() {
                        Some(r) => items.push(crate::reader::fq::rec_json(&r, false, false)),
                        None => break,
                    }
                }
                let (lo, hi) = it.size_hint();
                hints.push(format!("[{},{}]", lo, hi.map(|h| h as i64).unwrap_or(-1)));
                let after: Vec<bool> = (0..3).map(|_| it.next().is_none()).collect();
                sets.push(format!("{{\"len\":{},\"items\":[{}],\"after\":{:?},\"hints\":[{}]}}", set.len(), items.join(","), after, hints.join(",")));
            }
            let mut rdr2 = fastq::Reader::with_capacity(&x[..], cap);
            let mut it = rdr2.records();
            while let Some(Ok(_)) = it.next() {}
            owned_after = (0..3).map(|_| it.next().is_none()).collect();
        }
        writeln!(f, "{{\"ev\":\"setiter\",\"fmt\":\"{}\",\"input\":{},\"cap\":{},\"sets\":[{}],\"owned_after\":{:?},\"hints_ok\":{}}}", fmt, jb(&x), cap, sets.join(","), owned_after, hints_ok).unwrap();
        n += 1;
    }
    // owned-record iterators: the size hint must bracket the number of items still to come at every step
    let mut owned_inputs: Vec<(String, Vec<u8>)> = vec![];
    for k in 0..4usize {
        for crlf in [false, true] {
            let eol: &[u8] = if crlf { b"\r\n" } else { b"\n" };
            let mut fq = vec![];
            let mut fa = vec![];
            for r in 0..2 {
                for l in [&b"@id d"[..], &b"ACGT"[..], &b"+"[..], &b"IIII"[..]] {
                    fq.extend(l);
                    fq.extend(eol);
                }
                fa.extend(if r == 0 { &b">a b"[..] } else { &b">c"[..] });
                fa.extend(eol);
                fa.extend(b"ACG");
                fa.extend(eol);
            }
            for _ in 0..k {
                fq.extend(eol);
                fa.extend(eol);
            }
            owned_inputs.push(("fastq".into(), fq));
            owned_inputs.push(("fasta".into(), fa));
        }
    }
    for k in 0..nsets {
        let fmt = if k % 2 == 0 { "fasta" } else { "fastq" };
        owned_inputs.push((fmt.to_string(), crate::gen::rand_struct(&mut rng, fmt, &serde_json::json!({"maxrec": 4, "maxfield": 4, "damage": 25}))));
    }
    for (fmt, x) in &owned_inputs {
        for cap in [3usize, 16, 64] {
            for into in [false, true] {
                let mut hints: Vec<String> = vec![];
                let mut items = 0usize;
                let mut step = |hint: (usize, Option<usize>), some: bool| {
                    hints.push(format!("[{},{}]", hint.0, hint.1.map(|h| h as i64).unwrap_or(-1)));
                    if some {
                        items += 1;
                    }
                };
                macro_rules! drive {
                    ($it:expr) => {{
                        let mut it = $it;
                        let mut guard = 0;
                        loop {
                            let h = it.size_hint();
                            let nx = it.next();
                            step(h, nx.is_some());
                            guard += 1;
                            if nx.is_none() || guard > 64 {
                                break;
                            }
                        }
                        let h = it.size_hint();
                        let nx = it.next();
                        step(h, nx.is_some());
                    }};
                }
                if fmt == "fasta" {
                    let mut rdr = fasta::Reader::with_capacity(&x[..], cap);
                    if into {
                        drive!(rdr.into_records())
                    } else {
                        drive!(rdr.records())
                    }
                } else {
                    let mut rdr = fastq::Reader::with_capacity(&x[..], cap);
                    if into {
                        drive!(rdr.into_records())
                    } else {
                        drive!(rdr.records())
                    }
                }
                writeln!(f, "{{\"ev\":\"ownediter\",\"fmt\":\"{}\",\"input\":{},\"cap\":{},\"into\":{},\"hints\":[{}],\"items\":{}}}", fmt, jb(x), cap, into, hints.join(","), items).unwrap();
                n += 1;
            }
        }
    }
    f.flush().unwrap();
    println!("{{\"cases\":{}}}", n);
}
