//! small JSON helpers (hand-written for speed; byte strings are arrays of 0..255)
use std::any::Any;

pub fn jb(v: &[u8]) -> String {
    let mut s = String::with_capacity(2 + v.len() * 4);
    s.push('[');
    for (i, b) in v.iter().enumerate() {
        if i > 0 {
            s.push(',');
        }
        s.push_str(itoa(*b as u64).as_str());
    }
    s.push(']');
    s
}

fn itoa(n: u64) -> String {
    n.to_string()
}

/// JSON string literal
pub fn jstr(s: &str) -> String {
    serde_json::to_string(s).unwrap()
}

pub fn jlines<'a, I: Iterator<Item = &'a [u8]>>(it: I) -> String {
    let mut s = String::from("[");
    let mut n = 0;
    for l in it {
        if n > 0 {
            s.push(',');
        }
        n += 1;
        s.push_str(&jb(l));
    }
    s.push(']');
    s
}

/// Option<bytes> as [] / [[..]]
pub fn jopt(o: Option<&[u8]>) -> String {
    match o {
        None => "[]".into(),
        Some(b) => format!("[{}]", jb(b)),
    }
}

pub fn panic_msg(p: &Box<dyn Any + Send>) -> String {
    if let Some(s) = p.downcast_ref::<&str>() {
        s.to_string()
    } else if let Some(s) = p.downcast_ref::<String>() {
        s.clone()
    } else {
        "?".into()
    }
}

pub fn panic_json(p: &Box<dyn Any + Send>) -> String {
    let m = panic_msg(p);
    if m.contains("VERIF-HANG") {
        "{\"k\":\"hang\"}".to_string()
    } else {
        format!("{{\"k\":\"panic\",\"msg\":{}}}", jstr(&m))
    }
}

pub fn pos_json(p: Option<(u64, u64)>) -> String {
    match p {
        None => "[]".into(),
        Some((l, b)) => format!("[{},{}]", l, b),
    }
}
