//! Long regular inputs (tens of thousands of records): what the readers report at sampled record indices - around
//! 2^7, 2^8, 2^15, 2^16 and at the end -, how many records they deliver, where a final invalid record is reported and
//! where a seek far into the file lands. No expected values here: TraceLong.tla knows the file from its description
//! (n records of fixed shape, numbered in their headers) and judges the samples by arithmetic.
use std::io::Write;

fn samples(n: usize) -> Vec<usize> {
    let mut v: Vec<usize> = vec![1, 2, 3, 127, 128, 129, 255, 256, 257, 511, 512, 513, 32767, 32768, 32769, 65535, 65536, 65537, 65538];
    v.push(n.saturating_sub(1));
    v.push(n);
    v.retain(|&k| k >= 1 && k <= n);
    v.sort();
    v.dedup();
    v
}

/// the file: n records ">000017 d\nACGT\nAC\n" (FASTA, 3 lines, 18 bytes) or "@000017 d\nACGT\n+\nIIII\n" (FASTQ, 4
/// lines, 22 bytes), CRLF instead of LF if `crlf`; then, if `bad`, a group of four lines whose first line "xbad" starts no record
pub fn render(fmt: &str, n: usize, crlf: bool, bad: bool) -> Vec<u8> {
    let e: &[u8] = if crlf { b"\r\n" } else { b"\n" };
    let mut x = Vec::with_capacity(n * 24 + 8);
    for k in 1..=n {
        x.push(if fmt == "fasta" { b'>' } else { b'@' });
        x.extend(format!("{:06} d", k).as_bytes());
        x.extend(e);
        x.extend(b"ACGT");
        x.extend(e);
        if fmt == "fasta" {
            x.extend(b"AC");
            x.extend(e);
        } else {
            x.extend(b"+");
            x.extend(e);
            x.extend(b"IIII");
            x.extend(e);
        }
    }
    if bad {
        // a complete group of four lines whose first line does not start a record
        for l in [&b"xbad"[..], b"AC", b"+", b"II"] {
            x.extend(l);
            x.extend(e);
        }
    }
    x
}

fn jb(b: &[u8]) -> String {
    crate::util::jb(b)
}

/// a source that delivers at most `chunk` bytes per call and reports Interrupted before every `intr_every`-th read
/// (or, with `burst` > 0, that many times in a row once, in the middle of the input)
pub struct SlowSrc<'a> {
    inner: std::io::Cursor<&'a [u8]>,
    chunk: usize,
    intr_every: usize,
    burst: usize,
    calls: usize,
}
impl<'a> std::io::Read for SlowSrc<'a> {
    fn read(&mut self, buf: &mut [u8]) -> std::io::Result<usize> {
        self.calls += 1;
        if self.intr_every > 0 && self.calls % self.intr_every == 0 {
            return Err(std::io::Error::from(std::io::ErrorKind::Interrupted));
        }
        if self.burst > 0 && self.inner.position() as usize >= self.inner.get_ref().len() / 2 {
            self.burst -= 1;
            return Err(std::io::Error::from(std::io::ErrorKind::Interrupted));
        }
        let n = buf.len().min(self.chunk);
        self.inner.read(&mut buf[..n])
    }
}
impl<'a> std::io::Seek for SlowSrc<'a> {
    fn seek(&mut self, p: std::io::SeekFrom) -> std::io::Result<u64> {
        self.inner.seek(p)
    }
}

macro_rules! long_driver {
    ($fname:ident, $m:ident, $posof:expr, $errjson:path) => {
        fn $fname(fmt: &str, n: usize, cap: usize, crlf: bool, bad: bool, mode: &str, src: (usize, usize, usize), ctor: &str) -> String {
            use std::io::Write as _;
            let x = render(fmt, n, crlf, bad);
            let sm = samples(n);
            fn inner<R: std::io::Read + std::io::Seek>(mut rdr: seq_io::$m::Reader<R, seq_io::policy::StdPolicy>, n: usize, mode: &str, sm: &[usize]) -> String {
                use seq_io::$m::Record as _;
                let mut obs: Vec<String> = vec![];
                let mut count = 0usize;
                let mut last = String::from("{\"k\":\"none\"}");
                let mut seekpos: Option<seq_io::$m::Position> = None;
                let mut seek_target = 0usize;
                let mut steady_allocs = 0u64;
                let seek_k = if n >= 65537 { 65537 } else { n / 2 + 1 };
                if mode == "next" {
                    loop {
                        let res = rdr.next();
                        match res {
                            None => break,
                            Some(Err(e)) => {
                                last = $errjson(&e);
                                break;
                            }
                            Some(Ok(rec)) => {
                                count += 1;
                                if sm.binary_search(&count).is_ok() {
                                    let head = rec.head().to_vec();
                                    let seqlen = rec.seq().len();
                                    let p: Option<(u64, u64)> = $posof(&rdr);
                                    let (l, b) = p.map(|(l, b)| (l as i64, b as i64)).unwrap_or((-1, -1));
                                    obs.push(format!("{{\"k\":{},\"head\":{},\"rawseqlen\":{},\"line\":{},\"byte\":{}}}", count, jb(&head), seqlen, l, b));
                                }
                                if count == seek_k {
                                    seekpos = Some(rdr.position().clone().into_pos());
                                    seek_target = seek_k;
                                }
                            }
                        }
                    }
                } else {
                    let mut set = seq_io::$m::RecordSet::default();
                    let mut nsets = 0usize;
                    let mut maxset = 0usize;
                    loop {
                        let a0 = crate::alloc::count();
                        let res = rdr.read_record_set(&mut set);
                        let da = crate::alloc::count() - a0;
                        nsets += 1;
                        // allocations of a set read that holds no more records than an earlier one (after two warm-up reads)
                        if nsets > 2 && set.len() <= maxset && matches!(res, Some(Ok(()))) {
                            steady_allocs += da;
                        }
                        maxset = maxset.max(set.len());
                        match res {
                            None => break,
                            Some(Err(e)) => {
                                last = $errjson(&e);
                                break;
                            }
                            Some(Ok(())) => {
                                let p: Option<(u64, u64)> = $posof(&rdr);
                                let (l, b) = p.map(|(l, b)| (l as i64, b as i64)).unwrap_or((-1, -1));
                                let first = count + 1;
                                let mut i = 0;
                                let mut near = false;
                                for rec in &set {
                                    i += 1;
                                    if sm.binary_search(&(count + i)).is_ok() {
                                        near = true;
                                        obs.push(format!("{{\"k\":{},\"head\":{},\"rawseqlen\":{},\"line\":0,\"byte\":0}}", count + i, jb(rec.head()), rec.seq().len()));
                                    }
                                }
                                if i != set.len() {
                                    obs.push("{\"k\":0,\"head\":[],\"rawseqlen\":0,\"line\":0,\"byte\":0}".into());
                                }
                                count += i;
                                // the position after a set read denotes the next unread record
                                let _ = first;
                                if seekpos.is_none() && p.is_some() && count + 1 >= seek_k && count + 1 <= n {
                                    seekpos = Some(rdr.position().clone().into_pos());
                                    seek_target = count + 1;
                                    near = true;
                                }
                                if near || sm.binary_search(&(count + 1)).is_ok() {
                                obs.push(format!("{{\"k\":-1,\"next\":{},\"head\":[],\"rawseqlen\":0,\"line\":{},\"byte\":{}}}", count + 1, l, b));
                                }
                            }
                        }
                    }
                }
                // seek far into the file (to a position the reader itself reported) and read on
                let mut after_seek = String::from("{\"done\":false}");
                if let Some(p) = seekpos {
                    let sr = rdr.seek(&p);
                    let a0 = crate::alloc::count();
                    let first_after = rdr.next().map(|r| r.is_ok());
                    let seek_allocs = crate::alloc::count() - a0;
                    let _ = first_after;
                    let _ = rdr.seek(&p);
                    let nx = match rdr.next() {
                        None => "{\"k\":\"none\"}".to_string(),
                        Some(Err(e)) => $errjson(&e),
                        Some(Ok(rec)) => format!("{{\"k\":\"rec\",\"head\":{}}}", jb(rec.head())),
                    };
                    let p2: Option<(u64, u64)> = $posof(&rdr);
                    let (l, b) = p2.map(|(l, b)| (l as i64, b as i64)).unwrap_or((-1, -1));
                    after_seek = format!("{{\"done\":true,\"ok\":{},\"target\":{},\"res\":{},\"line\":{},\"byte\":{},\"allocs_in_next\":{}}}", sr.is_ok(), seek_target, nx, l, b, seek_allocs);
                }
                format!("\"count\":{},\"last\":{},\"obs\":[{}],\"seek\":{},\"steady_allocs\":{}", count, last, obs.join(","), after_seek, steady_allocs)
            }
            let r = std::panic::catch_unwind(std::panic::AssertUnwindSafe(|| {
                let source = SlowSrc { inner: std::io::Cursor::new(&x[..]), chunk: if src.0 == 0 { usize::MAX } else { src.0 }, intr_every: src.1, burst: src.2, calls: 0 };
                match ctor {
                    // the constructors: default capacity, and readers opened from a path
                    "new" => inner(seq_io::$m::Reader::new(source), n, mode, &sm),
                    "from_path" | "from_path_with_capacity" => {
                        let path = std::env::temp_dir().join(format!("vharness-long-{}-{:?}.tmp", std::process::id(), std::thread::current().id()));
                        {
                            let mut f = std::fs::File::create(&path).unwrap();
                            f.write_all(&x).unwrap();
                        }
                        let out = if ctor == "from_path" { inner(seq_io::$m::Reader::from_path(&path).unwrap(), n, mode, &sm) } else { inner(seq_io::$m::Reader::from_path_with_capacity(&path, cap).unwrap(), n, mode, &sm) };
                        let _ = std::fs::remove_file(&path);
                        out
                    }
                    _ => inner(seq_io::$m::Reader::with_capacity(source, cap), n, mode, &sm),
                }
            }));
            let body = match r {
                Ok(s) => format!("\"panic\":false,{}", s),
                Err(_) => "\"panic\":true,\"count\":0,\"last\":{\"k\":\"panic\"},\"obs\":[],\"seek\":{\"done\":false},\"steady_allocs\":0".to_string(),
            };
            format!("{{\"ev\":\"long\",\"fmt\":\"{}\",\"n\":{},\"cap\":{},\"crlf\":{},\"bad\":{},\"mode\":\"{}\",\"ctor\":\"{}\",\"src\":[{},{},{}],{}}}", fmt, n, cap, crlf, bad, mode, ctor, src.0, src.1, src.2, body)
        }
    };
}

trait IntoPos<P> {
    fn into_pos(self) -> P;
}
impl IntoPos<seq_io::fasta::Position> for Option<&seq_io::fasta::Position> {
    fn into_pos(self) -> seq_io::fasta::Position {
        self.cloned().unwrap_or_else(|| seq_io::fasta::Position::new(0, 0))
    }
}
impl IntoPos<seq_io::fastq::Position> for seq_io::fastq::Position {
    fn into_pos(self) -> seq_io::fastq::Position {
        self
    }
}

fn fa_pos<R: std::io::Read, P: seq_io::policy::BufPolicy>(r: &seq_io::fasta::Reader<R, P>) -> Option<(u64, u64)> {
    r.position().map(|p| (p.line(), p.byte()))
}
fn fq_pos<R: std::io::Read, P: seq_io::policy::BufPolicy>(r: &seq_io::fastq::Reader<R, P>) -> Option<(u64, u64)> {
    let p = r.position();
    Some((p.line(), p.byte()))
}

long_driver!(run_fasta, fasta, fa_pos, crate::reader::fa::err_json);
long_driver!(run_fastq, fastq, fq_pos, crate::reader::fq::err_json);

/// one giant record followed by a small one: FASTA ">big d" with m sequence lines of w bytes (line i starts with
/// "ACGT"[i % 4] and goes on with 'N's), FASTQ "@big d" with a sequence and a quality line of w bytes
fn line_width(i: usize, w: usize, alt: usize) -> usize {
    if alt > 0 && i % 2 == 1 { alt } else { w }
}

fn render_giant(fmt: &str, m: usize, w: usize, crlf: bool, alt: usize, qual_extra: usize) -> Vec<u8> {
    let e: &[u8] = if crlf { b"\r\n" } else { b"\n" };
    let mut x = Vec::with_capacity(m * (w + 2) * 2 + 64);
    if fmt == "fasta" {
        x.extend(b">big d");
        x.extend(e);
        for i in 1..=m {
            let wi = line_width(i, w, alt);
            if wi > 0 {
                x.push(b"ACGT"[i % 4]);
                x.extend(std::iter::repeat(b'N').take(wi - 1));
            }
            x.extend(e);
        }
        x.extend(b">next");
        x.extend(e);
        x.extend(b"AC");
        x.extend(e);
    } else {
        x.extend(b"@big d");
        x.extend(e);
        x.extend(std::iter::repeat(b'A').take(w));
        x.extend(e);
        x.extend(b"+");
        x.extend(e);
        x.extend(std::iter::repeat(b'I').take(w + qual_extra));
        x.extend(e);
        x.extend(b"@next");
        x.extend(e);
        x.extend(b"AC");
        x.extend(e);
        x.extend(b"+");
        x.extend(e);
        x.extend(b"II");
        x.extend(e);
    }
    x
}

fn profile(o: &[u8]) -> (Vec<u8>, bool, Vec<u8>, Vec<(usize, usize)>) {
    let ends_lf = o.last() == Some(&b'\n');
    let mut lines: Vec<&[u8]> = o.split(|b| *b == b'\n').collect();
    if ends_lf {
        lines.pop();
    }
    let head = lines.first().map(|l| l.to_vec()).unwrap_or_default();
    let body = if lines.is_empty() { &lines[..] } else { &lines[1..] };
    let joined: Vec<u8> = body.concat();
    let mut rle: Vec<(usize, usize)> = vec![];
    for l in body {
        match rle.last_mut() {
            Some((n, c)) if *n == l.len() => *c += 1,
            _ => rle.push((l.len(), 1)),
        }
    }
    (head, ends_lf, joined, rle)
}

fn giant_fasta(m: usize, w: usize, cap: usize, crlf: bool, via_set: bool, alt: usize) -> String {
    use seq_io::fasta::Record as _;
    let x = render_giant("fasta", m, w, crlf, alt, 0);
    let sm = samples(m);
    let r = std::panic::catch_unwind(std::panic::AssertUnwindSafe(|| {
        let mut rdr = seq_io::fasta::Reader::with_capacity(std::io::Cursor::new(&x[..]), cap);
        let mut set = seq_io::fasta::RecordSet::default();
        let describe = |rec: &seq_io::fasta::RefRecord| -> String {
            let mut lines = vec![];
            let mut i = 0usize;
            let mut total = 0usize;
            for l in rec.seq_lines() {
                i += 1;
                total += l.len();
                if sm.binary_search(&i).is_ok() {
                    lines.push(format!("{{\"i\":{},\"len\":{},\"first\":{}}}", i, l.len(), l.first().map(|b| *b as i64).unwrap_or(-1)));
                }
            }
            let back = rec.seq_lines().next_back().map(|l| l.len() as i64).unwrap_or(-1);
            // what RefRecord::write and the owned copy write (unwrapped: one line), and the owned copy after a serde round trip
            let owned_seq = rec.owned_seq();
            let mut wo = vec![];
            rec.write(&mut wo).unwrap();
            let (wh, wlf, wj, wr) = profile(&wo);
            let o = rec.to_owned_record();
            let owned_eq = std::panic::catch_unwind(std::panic::AssertUnwindSafe(|| {
                let back_o: seq_io::fasta::OwnedRecord = serde_json::from_str(&serde_json::to_string(&o).unwrap()).unwrap();
                back_o == o
            }))
            .unwrap_or(false);
            format!(
                "{{\"k\":\"rec\",\"head\":{},\"nlines\":{},\"iterated\":{},\"len_hint\":{},\"sum\":{},\"owned\":{},\"full\":{},\"raw\":{},\"last_from_back\":{},\"lines\":[{}],\"write\":{{\"headline\":{},\"ends_lf\":{},\"joined_is_seq\":{},\"nlines\":{}}},\"serde_owned_eq\":{}}}",
                jb(rec.head()), rec.num_seq_lines(), i, rec.seq_lines().len(), total, owned_seq.len(), rec.full_seq().len(), rec.seq().len(), back, lines.join(","),
                jb(&wh), wlf, wj == owned_seq, wr.iter().map(|(_, c)| *c).sum::<usize>(), owned_eq
            )
        };
        let mut serde_same = true;
        let (first, p1, second, p2);
        if via_set {
            let res = rdr.read_record_set(&mut set);
            let errj = match &res { Some(Err(e)) => Some(crate::reader::fa::err_json(e)), _ => None };
            let ok = matches!(res, Some(Ok(())));
            // the records are described from a serde round trip of the set (C19), the set itself must say the same
            let recs0: Vec<String> = if ok { set.into_iter().map(|r| describe(&r)).collect() } else { vec![] };
            // (a panic in the round trip or in reading the deserialised set is a matter of the round trip, not of the reader)
            let rt = std::panic::catch_unwind(std::panic::AssertUnwindSafe(|| {
                let set2: seq_io::fasta::RecordSet = serde_json::from_str(&serde_json::to_string(&set).unwrap()).unwrap();
                let v: Vec<String> = if ok { set2.into_iter().map(|r| describe(&r)).collect() } else { vec![] };
                v
            }));
            let recs: Vec<String> = match rt { Ok(v) => v, Err(_) => { serde_same = false; recs0.clone() } };
            serde_same = serde_same && recs0 == recs;
            let recs = recs0;
            first = recs.get(0).cloned().or(errj).unwrap_or_else(|| "{\"k\":\"none\"}".into());
            second = if recs.len() > 1 {
                recs[1].clone()
            } else {
                match rdr.next() {
                    Some(Ok(r)) => describe(&r),
                    Some(Err(e)) => crate::reader::fa::err_json(&e),
                    None => "{\"k\":\"none\"}".into(),
                }
            };
            p1 = None;
            p2 = None;
        } else {
            first = match rdr.next() {
                Some(Ok(r)) => describe(&r),
                Some(Err(e)) => crate::reader::fa::err_json(&e),
                None => "{\"k\":\"none\"}".into(),
            };
            p1 = fa_pos(&rdr);
            second = match rdr.next() {
                Some(Ok(r)) => describe(&r),
                Some(Err(e)) => crate::reader::fa::err_json(&e),
                None => "{\"k\":\"none\"}".into(),
            };
            p2 = fa_pos(&rdr);
        }
        let third_none = rdr.next().is_none();
        let pj = |p: Option<(u64, u64)>| p.map(|(l, b)| format!("[{},{}]", l, b)).unwrap_or_else(|| "[]".into());
        format!("\"first\":{},\"pos1\":{},\"second\":{},\"pos2\":{},\"then_none\":{},\"serde_set_same\":{}", first, pj(p1), second, pj(p2), third_none, serde_same)
    }));
    let body = match r {
        Ok(s) => format!("\"panic\":false,{}", s),
        Err(_) => "\"panic\":true".to_string(),
    };
    format!("{{\"ev\":\"giant\",\"fmt\":\"fasta\",\"m\":{},\"w\":{},\"alt\":{},\"extra\":0,\"cap\":{},\"crlf\":{},\"via_set\":{},{}}}", m, w, alt, cap, crlf, via_set, body)
}

fn giant_fastq(w: usize, cap: usize, crlf: bool, via_set: bool, qual_extra: usize) -> String {
    use seq_io::fastq::Record as _;
    let x = render_giant("fastq", 1, w, crlf, 0, qual_extra);
    let r = std::panic::catch_unwind(std::panic::AssertUnwindSafe(|| {
        let mut rdr = seq_io::fastq::Reader::with_capacity(std::io::Cursor::new(&x[..]), cap);
        let mut set = seq_io::fastq::RecordSet::default();
        let describe = |rec: &seq_io::fastq::RefRecord| -> String {
            let o = rec.to_owned_record();
            let (owned_eq, back_quallen) = std::panic::catch_unwind(std::panic::AssertUnwindSafe(|| {
                let back_o: seq_io::fastq::OwnedRecord = serde_json::from_str(&serde_json::to_string(&o).unwrap()).unwrap();
                (back_o == o, back_o.qual.len() as i64)
            }))
            .unwrap_or((false, -1));
            let mut wo = vec![];
            rec.write(&mut wo).unwrap();
            let wl: Vec<usize> = wo.split(|b| *b == b'\n').map(|l| l.len()).collect();
            format!(
                "{{\"k\":\"rec\",\"serde_owned_eq\":{},\"serde_quallen\":{},\"written_line_lens\":{:?},\"head\":{},\"seqlen\":{},\"quallen\":{},\"oseqlen\":{},\"oquallen\":{},\"seq_first\":{},\"seq_last\":{},\"qual_first\":{},\"qual_last\":{}}}",
                owned_eq, back_quallen, wl,
                jb(rec.head()), rec.seq().len(), rec.qual().len(), o.seq.len(), o.qual.len(),
                rec.seq().first().map(|b| *b as i64).unwrap_or(-1), rec.seq().last().map(|b| *b as i64).unwrap_or(-1),
                rec.qual().first().map(|b| *b as i64).unwrap_or(-1), rec.qual().last().map(|b| *b as i64).unwrap_or(-1)
            )
        };
        let mut serde_same = true;
        let (first, p1, second, p2);
        if via_set {
            let res = rdr.read_record_set(&mut set);
            let errj = match &res { Some(Err(e)) => Some(crate::reader::fq::err_json(e)), _ => None };
            let ok = matches!(res, Some(Ok(())));
            let recs0: Vec<String> = if ok { set.into_iter().map(|r| describe(&r)).collect() } else { vec![] };
            let rt = std::panic::catch_unwind(std::panic::AssertUnwindSafe(|| {
                let set2: seq_io::fastq::RecordSet = serde_json::from_str(&serde_json::to_string(&set).unwrap()).unwrap();
                let v: Vec<String> = if ok { set2.into_iter().map(|r| describe(&r)).collect() } else { vec![] };
                v
            }));
            let recs: Vec<String> = match rt { Ok(v) => v, Err(_) => { serde_same = false; recs0.clone() } };
            serde_same = serde_same && recs0 == recs;
            let recs = recs0;
            first = recs.get(0).cloned().or(errj).unwrap_or_else(|| "{\"k\":\"none\"}".into());
            second = if recs.len() > 1 {
                recs[1].clone()
            } else {
                match rdr.next() {
                    Some(Ok(r)) => describe(&r),
                    Some(Err(e)) => crate::reader::fq::err_json(&e),
                    None => "{\"k\":\"none\"}".into(),
                }
            };
            p1 = None;
            p2 = None;
        } else {
            first = match rdr.next() {
                Some(Ok(r)) => describe(&r),
                Some(Err(e)) => crate::reader::fq::err_json(&e),
                None => "{\"k\":\"none\"}".into(),
            };
            p1 = fq_pos(&rdr);
            second = match rdr.next() {
                Some(Ok(r)) => describe(&r),
                Some(Err(e)) => crate::reader::fq::err_json(&e),
                None => "{\"k\":\"none\"}".into(),
            };
            p2 = fq_pos(&rdr);
        }
        let third_none = rdr.next().is_none();
        let pj = |p: Option<(u64, u64)>| p.map(|(l, b)| format!("[{},{}]", l, b)).unwrap_or_else(|| "[]".into());
        format!("\"first\":{},\"pos1\":{},\"second\":{},\"pos2\":{},\"then_none\":{},\"serde_set_same\":{}", first, pj(p1), second, pj(p2), third_none, serde_same)
    }));
    let body = match r {
        Ok(s) => format!("\"panic\":false,{}", s),
        Err(_) => "\"panic\":true".to_string(),
    };
    format!("{{\"ev\":\"giant\",\"fmt\":\"fastq\",\"m\":1,\"w\":{},\"alt\":0,\"extra\":{},\"cap\":{},\"crlf\":{},\"via_set\":{},{}}}", w, qual_extra, cap, crlf, via_set, body)
}

/// wrapped writing of a long sequence: the output is described by its header line, the run-length encoded lengths of
/// its sequence lines and whether the lines joined are the sequence that was written
fn long_write(len: usize, w: usize, how: &str, headlen: usize) -> String {
    let seq: Vec<u8> = (0..len).map(|i| b"ACGT"[i % 4]).collect();
    // the header: "id d" or, if headlen > 0, "id " followed by 'h's up to that length
    let head: Vec<u8> = if headlen == 0 { b"id d".to_vec() } else { let mut h = b"id ".to_vec(); h.extend(std::iter::repeat(b'h').take(headlen.saturating_sub(3))); h };
    let desc: Vec<u8> = head[3..].to_vec();
    // chunks of uneven sizes: 60, 6000, 1, 4096, 0, 5000, ... (a long chunk after shorter ones)
    let uneven: Vec<&[u8]> = {
        let sizes = [60usize, 6000, 1, 4096, 0, 5000, 100, 4095, 4097];
        let mut v = vec![];
        let mut at = 0;
        let mut i = 0;
        while at < seq.len() {
            let n = sizes[i % sizes.len()].min(seq.len() - at);
            v.push(&seq[at..at + n]);
            at += n;
            i += 1;
        }
        v
    };
    let r = std::panic::catch_unwind(std::panic::AssertUnwindSafe(|| {
        let mut o = vec![];
        match how {
            "write_wrap" => seq_io::fasta::write_wrap(&mut o, b"id", Some(&desc[..]), &seq, w).unwrap(),
            "owned_wrap" => {
                use seq_io::fasta::Record as _;
                seq_io::fasta::OwnedRecord { head: head.clone(), seq: seq.clone() }.write_wrap(&mut o, w).unwrap()
            }
            "owned_plain" => {
                use seq_io::fasta::Record as _;
                seq_io::fasta::OwnedRecord { head: head.clone(), seq: seq.clone() }.write(&mut o).unwrap()
            }
            "write_to" => seq_io::fasta::write_to(&mut o, &head, &seq).unwrap(),
            "iter_uneven" => {
                seq_io::fasta::write_head(&mut o, &head).unwrap();
                seq_io::fasta::write_wrap_seq_iter(&mut o, uneven.iter().cloned(), w).unwrap()
            }
            "seq_iter_uneven" => {
                seq_io::fasta::write_head(&mut o, &head).unwrap();
                seq_io::fasta::write_seq_iter(&mut o, uneven.iter().cloned()).unwrap()
            }
            _ => {
                seq_io::fasta::write_head(&mut o, &head).unwrap();
                seq_io::fasta::write_wrap_seq_iter(&mut o, seq.chunks(1000), w).unwrap()
            }
        }
        let (hl, ends_lf, joined, rle) = profile(&o);
        let mut want = vec![b'>'];
        want.extend(&head);
        format!(
            "\"headline_is_head\":{},\"ends_lf\":{},\"joined_is_seq\":{},\"nbytes\":{},\"rle\":[{}]",
            hl == want, ends_lf, joined == seq, o.len(), rle.iter().map(|(n, c)| format!("[{},{}]", n, c)).collect::<Vec<_>>().join(",")
        )
    }));
    let body = match r {
        Ok(s) => format!("\"panic\":false,{}", s),
        Err(_) => "\"panic\":true".to_string(),
    };
    format!("{{\"ev\":\"longw\",\"fmt\":\"fasta\",\"cap\":0,\"len\":{},\"w\":{},\"how\":\"{}\",\"headlen\":{},{}}}", len, w, how, headlen, body)
}

/// the built-in policies asked directly at sizes around their thresholds (answers clamped to 2^31-1 in the log; 0 = refused)
fn policy_table() -> Vec<String> {
    use seq_io::policy::{BufPolicy, DoubleUntil, DoubleUntilLimited, StdPolicy};
    let clamp = |a: Option<usize>| a.map(|v| v.min(i32::MAX as usize)).unwrap_or(0);
    let mut rows = vec![];
    let sizes: Vec<usize> = vec![3, 4, 255, 256, 65535, 65536, (1 << 23) - 1, 1 << 23, (1 << 23) + 1, 3 << 22, 1 << 24, (1 << 24) + 5, 1 << 26, (1 << 29) + 7];
    for &c in &sizes {
        rows.push(format!("{{\"p\":{{\"k\":\"std\",\"a\":0,\"b\":0}},\"c\":{},\"a\":{}}}", c, clamp(StdPolicy.grow_to(c))));
        for d in [1usize, 256, 65536, 1 << 20, 1 << 23] {
            rows.push(format!("{{\"p\":{{\"k\":\"du\",\"a\":{},\"b\":0}},\"c\":{},\"a\":{}}}", d, c, clamp(DoubleUntil(d).grow_to(c))));
            for l in [d, 2 * d, 2 * c, 2 * c - 1, 2 * c + 1, c + d, c + d - 1, c + d + 1, 1 << 30] {
                rows.push(format!("{{\"p\":{{\"k\":\"dul\",\"a\":{},\"b\":{}}},\"c\":{},\"a\":{}}}", d, l, c, clamp(DoubleUntilLimited::new(d, l).grow_to(c))));
            }
        }
    }
    rows
}

/// runs one case in its own thread; a case that does not finish within 60 s is a hang of the code under test (data)
fn guarded(label: String, f: impl FnOnce() -> String + Send + 'static) -> String {
    guarded_for(60, label, f)
}
fn guarded_for(secs: u64, label: String, f: impl FnOnce() -> String + Send + 'static) -> String {
    let (tx, rx) = std::sync::mpsc::channel();
    std::thread::spawn(move || {
        let _ = tx.send(f());
    });
    match rx.recv_timeout(std::time::Duration::from_secs(secs)) {
        Ok(s) => s,
        Err(_) => format!("{{\"ev\":\"stuck\",\"fmt\":\"\",\"cap\":0,\"writing\":{},\"what\":\"{}\"}}", label.starts_with("write"), label),
    }
}

/// `vharness long-one <fmt> <w> <cap>`: one giant record, the JSON line on stdout
pub fn cmd_long_one(fmt: &str, w: usize, cap: usize) {
    let line = if fmt == "fasta" { giant_fasta(1, w, cap, false, false, 0) } else { giant_fastq(w, cap, false, false, 0) };
    println!("{}", line);
}

fn in_child(fmt: &str, w: usize, cap: usize) -> String {
    let exe = std::env::current_exe().unwrap();
    let mut child = match std::process::Command::new(exe).args(["long-one", fmt, &w.to_string(), &cap.to_string()]).stdout(std::process::Stdio::piped()).stderr(std::process::Stdio::null()).spawn() {
        Ok(c) => c,
        Err(_) => return format!("{{\"ev\":\"stuck\",\"fmt\":\"\",\"cap\":0,\"writing\":false,\"what\":\"could not start child\"}}"),
    };
    let t0 = std::time::Instant::now();
    loop {
        match child.try_wait() {
            Ok(Some(st)) => {
                let mut out = String::new();
                if let Some(mut so) = child.stdout.take() {
                    use std::io::Read as _;
                    let _ = so.read_to_string(&mut out);
                }
                let line = out.lines().find(|l| l.starts_with("{\"ev\"")).map(|l| l.to_string());
                return match (st.success(), line) {
                    (true, Some(l)) => l,
                    // the process died (abort on an impossible allocation, stack overflow, ...): the reader did not survive this input
                    _ => format!("{{\"ev\":\"giant\",\"fmt\":\"{}\",\"m\":1,\"w\":{},\"alt\":0,\"extra\":0,\"cap\":{},\"crlf\":false,\"via_set\":false,\"panic\":true,\"died\":true}}", fmt, w, cap),
                };
            }
            Ok(None) => {
                if t0.elapsed().as_secs() > 60 {
                    let _ = child.kill();
                    let _ = child.wait();
                    return format!("{{\"ev\":\"stuck\",\"fmt\":\"\",\"cap\":0,\"writing\":false,\"what\":\"giant {} w={} cap={}\"}}", fmt, w, cap);
                }
                std::thread::sleep(std::time::Duration::from_millis(20));
            }
            Err(_) => return format!("{{\"ev\":\"stuck\",\"fmt\":\"\",\"cap\":0,\"writing\":false,\"what\":\"child wait failed\"}}"),
        }
    }
}

/// far seeks on a virtual file of 2^32 + 2^20 + 5 records (more than 2^37 bytes): offsets, line numbers and distances beyond 2^31 / 2^32
fn far_cases(f: &mut std::io::BufWriter<std::fs::File>, thorough: bool) -> usize {
    let mut cases = 0usize;
    use crate::far::Step::*;
    let nrec: u64 = (1u64 << 32) + (1u64 << 20) + 5;
    {
        let mut scripts = crate::far::scripts(thorough);
        scripts.push(vec![Next, Seek(nrec - 1), Next, Next, Seek(nrec - 2), Set, Next, Seek(0), Next, Seek(nrec - 3), Next, Next, Next, Next, Set]);
        for sc in scripts {
            for cap in [64usize, 4096, 65536] {
                for fasta in [true, false] {
                    let sc2 = sc.clone();
                    writeln!(f, "{}", guarded(format!("far seek fasta={} cap={}", fasta, cap), move || if fasta { crate::far::far_fasta(nrec, cap, sc2) } else { crate::far::far_fastq(nrec, cap, sc2) })).unwrap();
                    cases += 1;
                }
            }
        }
    }
    // sequential reading across byte offset 2^32: 2^27 + 2^11 records through record sets (64 KiB buffer; thorough: also 1 MiB), then
    // record by record, then back to the start
    {
        for cap in if thorough { vec![65536usize, 1 << 20] } else { vec![65536usize] } {
            for fasta in [true, false] {
                let sc = vec![Next, Drain((1u64 << 27) + (1 << 11)), Next, Next, Set, Seek(5), Next];
                writeln!(f, "{}", guarded_for(900, format!("far sequential fasta={} cap={}", fasta, cap), move || if fasta { crate::far::far_fasta(nrec, cap, sc) } else { crate::far::far_fastq(nrec, cap, sc) })).unwrap();
                cases += 1;
            }
        }
    }
    cases
}

pub fn cmd_long(out: &str, _seed: u64, thorough: bool) {
    let mut f = std::io::BufWriter::new(std::fs::File::create(out).unwrap());
    let mut cases = 0usize;
    if std::env::var("VERIF_LONG_ONLY").as_deref() == Ok("far") {
        // (development: only the far-seek cases)
        cases += far_cases(&mut f, thorough);
        f.flush().unwrap();
        println!("{{\"cases\":{}}}", cases);
        std::process::exit(0);
    }
    let ns: Vec<usize> = if thorough { vec![300, 66000, 140000] } else { vec![300, 66000] };
    for fmt in ["fasta", "fastq"] {
        for &n in &ns {
            for cap in [64usize, 65536] {
                for crlf in [false, true] {
                    for bad in [false, true] {
                        if fmt == "fasta" && bad {
                            continue; // FASTA knows no error after the first record
                        }
                        for mode in ["next", "set"] {
                            let (fm, md) = (fmt.to_string(), mode.to_string());
                            let line = guarded(format!("long {} n={} cap={} {}", fmt, n, cap, mode), move || if fm == "fasta" { run_fasta(&fm, n, cap, crlf, bad, &md, (0, 0, 0), "with_capacity") } else { run_fastq(&fm, n, cap, crlf, bad, &md, (0, 0, 0), "with_capacity") });
                            writeln!(f, "{}", line).unwrap();
                            cases += 1;
                        }
                    }
                }
            }
        }
    }
    // one record set that holds more than 65 535 records (a buffer of 4 MiB)
    for fmt in ["fasta", "fastq"] {
        let fm = fmt.to_string();
        let line = guarded(format!("long {} one big set", fmt), move || if fm == "fasta" { run_fasta(&fm, 70000, 4 << 20, false, false, "set", (0, 0, 0), "with_capacity") } else { run_fastq(&fm, 70000, 4 << 20, false, true, "set", (0, 0, 0), "with_capacity") });
        writeln!(f, "{}", line).unwrap();
        cases += 1;
    }
    // the other constructors: Reader::new (default capacity), from_path, from_path_with_capacity
    for fmt in ["fasta", "fastq"] {
        for ctor in ["new", "from_path", "from_path_with_capacity"] {
            for mode in ["next", "set"] {
                let (fm, md) = (fmt.to_string(), mode.to_string());
                let line = guarded(format!("long {} {} {}", fmt, ctor, mode), move || if fm == "fasta" { run_fasta(&fm, 9000, 64, true, false, &md, (0, 0, 0), ctor) } else { run_fastq(&fm, 9000, 64, false, true, &md, (0, 0, 0), ctor) });
                writeln!(f, "{}", line).unwrap();
                cases += 1;
            }
        }
    }
    // a slow source: 100 bytes per call and an interruption before every second read (several hundred interruptions within
    // one refill of a 64 KiB buffer), or 300 interruptions in a row
    for fmt in ["fasta", "fastq"] {
        for src in [(100usize, 2usize, 0usize), (0, 0, 300), (7, 3, 0)] {
            for mode in ["next", "set"] {
                let (fm, md) = (fmt.to_string(), mode.to_string());
                let line = guarded(format!("long {} slow source {:?} {}", fmt, src, mode), move || if fm == "fasta" { run_fasta(&fm, 8000, 65536, false, false, &md, src, "with_capacity") } else { run_fastq(&fm, 8000, 65536, false, true, &md, src, "with_capacity") });
                writeln!(f, "{}", line).unwrap();
                cases += 1;
            }
        }
    }
    // giant records: many lines, long lines, lengths around the default buffer size of 64 KiB
    let shapes: Vec<(usize, usize)> = if thorough { vec![(70000, 3), (140000, 1), (3, 70000), (1, 65535), (1, 65536), (1, 65537), (1, 200000), (300, 300)] } else { vec![(70000, 3), (3, 70000), (1, 65536), (1, 200000), (300, 300)] };
    for &(m, w) in &shapes {
        for cap in [64usize, 65536] {
            for crlf in [false, true] {
                for via_set in [false, true] {
                    writeln!(f, "{}", guarded(format!("giant fasta m={} w={} cap={}", m, w, cap), move || giant_fasta(m, w, cap, crlf, via_set, 0))).unwrap();
                    cases += 1;
                    if m == 1 {
                        writeln!(f, "{}", guarded(format!("giant fastq w={} cap={}", w, cap), move || giant_fastq(w, cap, crlf, via_set, 0))).unwrap();
                        cases += 1;
                    }
                    if m == 300 {
                        // short and long lines alternating (60 / 6000 bytes)
                        writeln!(f, "{}", guarded("giant fasta alternating".into(), move || giant_fasta(40, 6000, cap, crlf, via_set, 60))).unwrap();
                        // sequence and quality lengths that differ by a multiple of 2^16
                        writeln!(f, "{}", guarded("giant fastq unequal".into(), move || giant_fastq(100, cap, crlf, via_set, 65536))).unwrap();
                        writeln!(f, "{}", guarded("giant fastq unequal".into(), move || giant_fastq(7, cap, crlf, via_set, 196608))).unwrap();
                        cases += 3;
                    }
                }
            }
        }
    }
    // records of 9 MiB: the default policy has to grow the buffer beyond 8 MiB, where it stops doubling
    // (each in a child process: a policy that answers with an absurd size makes the allocator abort the process)
    for fmt in ["fasta", "fastq"] {
        let mut runs = vec![];
        // (16 MiB: large enough from the start - the same input read without any growth, for comparison)
        for cap in [65536usize, 8 << 20, 16 << 20] {
            let line = in_child(fmt, 9 << 20, cap);
            writeln!(f, "{}", line).unwrap();
            runs.push(line);
            cases += 1;
        }
        writeln!(f, "{{\"ev\":\"giantcmp\",\"fmt\":\"{}\",\"cap\":0,\"runs\":[{}]}}", fmt, runs.join(",")).unwrap();
        cases += 1;
    }
    {
        let rows = std::panic::catch_unwind(policy_table);
        match rows {
            Ok(r) => writeln!(f, "{{\"ev\":\"poltab\",\"fmt\":\"\",\"cap\":0,\"panic\":false,\"rows\":[{}]}}", r.join(",")).unwrap(),
            Err(_) => writeln!(f, "{{\"ev\":\"poltab\",\"fmt\":\"\",\"cap\":0,\"panic\":true,\"rows\":[]}}").unwrap(),
        }
        cases += 1;
    }
    // wrapped writing of long sequences with widths around 2^8 and 2^16
    for len in if thorough { vec![70000usize, 131072, 200001] } else { vec![70000usize, 131072] } {
        for w in [255usize, 256, 257, 4096, 65535, 65536, 65537] {
            for how in ["write_wrap", "owned_wrap", "iter", "iter_uneven"] {
                writeln!(f, "{}", guarded(format!("write {} len={} w={}", how, len, w), move || long_write(len, w, how, 0))).unwrap();
                cases += 1;
            }
        }
    }
    // every wrap width up to 300 (and around 2^9, 2^10) with a sequence of exactly w, 2 w and 2 w + 1 bytes: a threshold inside
    // a writer (a stack buffer, a fast path for short lines) lies at some width no hand-picked list contains
    for w in (1usize..=300).chain([511, 512, 513, 1023, 1024, 1025]) {
        for len in [w, 2 * w, 2 * w + 1] {
            for how in ["write_wrap", "owned_wrap", "iter"] {
                writeln!(f, "{}", guarded(format!("write {} len={} w={}", how, len, w), move || long_write(len, w, how, 0))).unwrap();
                cases += 1;
            }
        }
    }
    // unwrapped writing from uneven chunks; header lines of 254..257 and around 65 536 bytes through every entry point
    writeln!(f, "{}", guarded("write seq_iter_uneven".into(), move || long_write(70000, 0, "seq_iter_uneven", 0))).unwrap();
    cases += 1;
    for headlen in [253usize, 254, 255, 256, 257, 65535, 65536, 65537] {
        for how in ["write_wrap", "owned_wrap", "owned_plain", "write_to", "iter"] {
            writeln!(f, "{}", guarded(format!("write {} headlen={}", how, headlen), move || long_write(50, if how == "owned_plain" || how == "write_to" { 0 } else { 20 }, how, headlen))).unwrap();
            cases += 1;
        }
    }
    cases += far_cases(&mut f, thorough);
    f.flush().unwrap();
    println!("{{\"cases\":{}}}", cases);
    // (threads of cases that hang are still running)
    std::process::exit(0);
}
