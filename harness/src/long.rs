//! Long regular inputs (tens of thousands of records): what the readers report at sampled record indices - around
//! 2^7, 2^8, 2^15, 2^16 and at the end -, how many records they deliver, where a final invalid record is reported and
//! where a seek far into the file lands. No expected values here: TraceLong.tla knows the file from its description
//! (n records of fixed shape, numbered in their headers) and judges the samples by arithmetic.
use std::io::Write;

fn samples(n: usize) -> Vec<usize> {
    let mut v: Vec<usize> = vec![1, 2, 3, 127, 128, 129, 255, 256, 257, 511, 512, 513, 32767, 32768, 32769, 65535, 65536, 65537, 65538];
    v.push(n.saturating_sub(1));
    v.push(n);
    v.retain(|&k| k >= 1 && k <= n);
    v.sort();
    v.dedup();
    v
}

/// the file: n records ">000017 d\nACGT\nAC\n" (FASTA, 3 lines, 18 bytes) or "@000017 d\nACGT\n+\nIIII\n" (FASTQ, 4
/// lines, 22 bytes), CRLF instead of LF if `crlf`; then, if `bad`, a group of four lines whose first line "xbad" starts no record
pub fn render(fmt: &str, n: usize, crlf: bool, bad: bool) -> Vec<u8> {
    let e: &[u8] = if crlf { b"\r\n" } else { b"\n" };
    let mut x = Vec::with_capacity(n * 24 + 8);
    for k in 1..=n {
        x.push(if fmt == "fasta" { b'>' } else { b'@' });
        x.extend(format!("{:06} d", k).as_bytes());
        x.extend(e);
        x.extend(b"ACGT");
        x.extend(e);
        if fmt == "fasta" {
            x.extend(b"AC");
            x.extend(e);
        } else {
            x.extend(b"+");
            x.extend(e);
            x.extend(b"IIII");
            x.extend(e);
        }
    }
    if bad {
        // a complete group of four lines whose first line does not start a record
        for l in [&b"xbad"[..], b"AC", b"+", b"II"] {
            x.extend(l);
            x.extend(e);
        }
    }
    x
}

fn jb(b: &[u8]) -> String {
    crate::util::jb(b)
}

macro_rules! long_driver {
    ($fname:ident, $m:ident, $posof:expr, $errjson:path) => {
        fn $fname(fmt: &str, n: usize, cap: usize, crlf: bool, bad: bool, mode: &str) -> String {
            use seq_io::$m::Record as _;
            let x = render(fmt, n, crlf, bad);
            let sm = samples(n);
            let r = std::panic::catch_unwind(std::panic::AssertUnwindSafe(|| {
                let mut rdr = seq_io::$m::Reader::with_capacity(std::io::Cursor::new(&x[..]), cap);
                let mut obs: Vec<String> = vec![];
                let mut count = 0usize;
                let mut last = String::from("{\"k\":\"none\"}");
                let mut seekpos: Option<seq_io::$m::Position> = None;
                let mut seek_target = 0usize;
                let seek_k = if n >= 65537 { 65537 } else { n / 2 + 1 };
                if mode == "next" {
                    loop {
                        let res = rdr.next();
                        match res {
                            None => break,
                            Some(Err(e)) => {
                                last = $errjson(&e);
                                break;
                            }
                            Some(Ok(rec)) => {
                                count += 1;
                                if sm.binary_search(&count).is_ok() {
                                    let head = rec.head().to_vec();
                                    let seqlen = rec.seq().len();
                                    let p: Option<(u64, u64)> = $posof(&rdr);
                                    let (l, b) = p.map(|(l, b)| (l as i64, b as i64)).unwrap_or((-1, -1));
                                    obs.push(format!("{{\"k\":{},\"head\":{},\"rawseqlen\":{},\"line\":{},\"byte\":{}}}", count, jb(&head), seqlen, l, b));
                                }
                                if count == seek_k {
                                    seekpos = Some(rdr.position().clone().into_pos());
                                    seek_target = seek_k;
                                }
                            }
                        }
                    }
                } else {
                    let mut set = seq_io::$m::RecordSet::default();
                    loop {
                        match rdr.read_record_set(&mut set) {
                            None => break,
                            Some(Err(e)) => {
                                last = $errjson(&e);
                                break;
                            }
                            Some(Ok(())) => {
                                let p: Option<(u64, u64)> = $posof(&rdr);
                                let (l, b) = p.map(|(l, b)| (l as i64, b as i64)).unwrap_or((-1, -1));
                                let first = count + 1;
                                let mut i = 0;
                                let mut near = false;
                                for rec in &set {
                                    i += 1;
                                    if sm.binary_search(&(count + i)).is_ok() {
                                        near = true;
                                        obs.push(format!("{{\"k\":{},\"head\":{},\"rawseqlen\":{},\"line\":0,\"byte\":0}}", count + i, jb(rec.head()), rec.seq().len()));
                                    }
                                }
                                if i != set.len() {
                                    obs.push("{\"k\":0,\"head\":[],\"rawseqlen\":0,\"line\":0,\"byte\":0}".into());
                                }
                                count += i;
                                // the position after a set read denotes the next unread record
                                let _ = first;
                                if seekpos.is_none() && p.is_some() && count + 1 >= seek_k && count + 1 <= n {
                                    seekpos = Some(rdr.position().clone().into_pos());
                                    seek_target = count + 1;
                                    near = true;
                                }
                                if near || sm.binary_search(&(count + 1)).is_ok() {
                                obs.push(format!("{{\"k\":-1,\"next\":{},\"head\":[],\"rawseqlen\":0,\"line\":{},\"byte\":{}}}", count + 1, l, b));
                                }
                            }
                        }
                    }
                }
                // seek far into the file (to a position the reader itself reported) and read on
                let mut after_seek = String::from("{\"done\":false}");
                if let Some(p) = seekpos {
                    let sr = rdr.seek(&p);
                    let nx = match rdr.next() {
                        None => "{\"k\":\"none\"}".to_string(),
                        Some(Err(e)) => $errjson(&e),
                        Some(Ok(rec)) => format!("{{\"k\":\"rec\",\"head\":{}}}", jb(rec.head())),
                    };
                    let p2: Option<(u64, u64)> = $posof(&rdr);
                    let (l, b) = p2.map(|(l, b)| (l as i64, b as i64)).unwrap_or((-1, -1));
                    after_seek = format!("{{\"done\":true,\"ok\":{},\"target\":{},\"res\":{},\"line\":{},\"byte\":{}}}", sr.is_ok(), seek_target, nx, l, b);
                }
                format!("\"count\":{},\"last\":{},\"obs\":[{}],\"seek\":{}", count, last, obs.join(","), after_seek)
            }));
            let body = match r {
                Ok(s) => format!("\"panic\":false,{}", s),
                Err(_) => "\"panic\":true,\"count\":0,\"last\":{\"k\":\"panic\"},\"obs\":[],\"seek\":{\"done\":false}".to_string(),
            };
            format!("{{\"ev\":\"long\",\"fmt\":\"{}\",\"n\":{},\"cap\":{},\"crlf\":{},\"bad\":{},\"mode\":\"{}\",{}}}", fmt, n, cap, crlf, bad, mode, body)
        }
    };
}

trait IntoPos<P> {
    fn into_pos(self) -> P;
}
impl IntoPos<seq_io::fasta::Position> for Option<&seq_io::fasta::Position> {
    fn into_pos(self) -> seq_io::fasta::Position {
        self.cloned().unwrap_or_else(|| seq_io::fasta::Position::new(0, 0))
    }
}
impl IntoPos<seq_io::fastq::Position> for seq_io::fastq::Position {
    fn into_pos(self) -> seq_io::fastq::Position {
        self
    }
}

fn fa_pos<R: std::io::Read, P: seq_io::policy::BufPolicy>(r: &seq_io::fasta::Reader<R, P>) -> Option<(u64, u64)> {
    r.position().map(|p| (p.line(), p.byte()))
}
fn fq_pos<R: std::io::Read, P: seq_io::policy::BufPolicy>(r: &seq_io::fastq::Reader<R, P>) -> Option<(u64, u64)> {
    let p = r.position();
    Some((p.line(), p.byte()))
}

long_driver!(run_fasta, fasta, fa_pos, crate::reader::fa::err_json);
long_driver!(run_fastq, fastq, fq_pos, crate::reader::fq::err_json);

pub fn cmd_long(out: &str, _seed: u64, thorough: bool) {
    let mut f = std::io::BufWriter::new(std::fs::File::create(out).unwrap());
    let mut cases = 0usize;
    let ns: Vec<usize> = if thorough { vec![300, 66000, 140000] } else { vec![300, 66000] };
    for fmt in ["fasta", "fastq"] {
        for &n in &ns {
            for cap in [64usize, 65536] {
                for crlf in [false, true] {
                    for bad in [false, true] {
                        if fmt == "fasta" && bad {
                            continue; // FASTA knows no error after the first record
                        }
                        for mode in ["next", "set"] {
                            let line = if fmt == "fasta" { run_fasta(fmt, n, cap, crlf, bad, mode) } else { run_fastq(fmt, n, cap, crlf, bad, mode) };
                            writeln!(f, "{}", line).unwrap();
                            cases += 1;
                        }
                    }
                }
            }
        }
    }
    f.flush().unwrap();
    println!("{{\"cases\":{}}}", cases);
}
