//! Long regular inputs (tens of thousands of records): what the readers report at sampled record indices - around
//! 2^7, 2^8, 2^15, 2^16 and at the end -, how many records they deliver, where a final invalid record is reported and
//! where a seek far into the file lands. No expected values here: TraceLong.tla knows the file from its description
//! (n records of fixed shape, numbered in their headers) and judges the samples by arithmetic.
use std::io::Write;

fn samples(n: usize) -> Vec<usize> {
    let mut v: Vec<usize> = vec![1, 2, 3, 127, 128, 129, 255, 256, 257, 511, 512, 513, 32767, 32768, 32769, 65535, 65536, 65537, 65538];
    v.push(n.saturating_sub(1));
    v.push(n);
    v.retain(|&k| k >= 1 && k <= n);
    v.sort();
    v.dedup();
    v
}

/// the file: n records ">000017 d\nACGT\nAC\n" (FASTA, 3 lines, 18 bytes) or "@000017 d\nACGT\n+\nIIII\n" (FASTQ, 4
/// lines, 22 bytes), CRLF instead of LF if `crlf`; then, if `bad`, a group of four lines whose first line "xbad" starts no record
pub fn render(fmt: &str, n: usize, crlf: bool, bad: bool) -> Vec<u8> {
    let e: &[u8] = if crlf { b"\r\n" } else { b"\n" };
    let mut x = Vec::with_capacity(n * 24 + 8);
    for k in 1..=n {
        x.push(if fmt == "fasta" { b'>' } else { b'@' });
        x.extend(format!("{:06} d", k).as_bytes());
        x.extend(e);
        x.extend(b"ACGT");
        x.extend(e);
        if fmt == "fasta" {
            x.extend(b"AC");
            x.extend(e);
        } else {
            x.extend(b"+");
            x.extend(e);
            x.extend(b"IIII");
            x.extend(e);
        }
    }
    if bad {
        // a complete group of four lines whose first line does not start a record
        for l in [&b"xbad"[..], b"AC", b"+", b"II"] {
            x.extend(l);
            x.extend(e);
        }
    }
    x
}

fn jb(b: &[u8]) -> String {
    crate::util::jb(b)
}

macro_rules! long_driver {
    ($fname:ident, $m:ident, $posof:expr, $errjson:path) => {
        fn $fname(fmt: &str, n: usize, cap: usize, crlf: bool, bad: bool, mode: &str) -> String {
            use seq_io::$m::Record as _;
            let x = render(fmt, n, crlf, bad);
            let sm = samples(n);
            let r = std::panic::catch_unwind(std::panic::AssertUnwindSafe(|| {
                let mut rdr = seq_io::$m::Reader::with_capacity(std::io::Cursor::new(&x[..]), cap);
                let mut obs: Vec<String> = vec![];
                let mut count = 0usize;
                let mut last = String::from("{\"k\":\"none\"}");
                let mut seekpos: Option<seq_io::$m::Position> = None;
                let mut seek_target = 0usize;
                let seek_k = if n >= 65537 { 65537 } else { n / 2 + 1 };
                if mode == "next" {
                    loop {
                        let res = rdr.next();
                        match res {
                            None => break,
                            Some(Err(e)) => {
                                last = $errjson(&e);
                                break;
                            }
                            Some(Ok(rec)) => {
                                count += 1;
                                if sm.binary_search(&count).is_ok() {
                                    let head = rec.head().to_vec();
                                    let seqlen = rec.seq().len();
                                    let p: Option<(u64, u64)> = $posof(&rdr);
                                    let (l, b) = p.map(|(l, b)| (l as i64, b as i64)).unwrap_or((-1, -1));
                                    obs.push(format!("{{\"k\":{},\"head\":{},\"rawseqlen\":{},\"line\":{},\"byte\":{}}}", count, jb(&head), seqlen, l, b));
                                }
                                if count == seek_k {
                                    seekpos = Some(rdr.position().clone().into_pos());
                                    seek_target = seek_k;
                                }
                            }
                        }
                    }
                } else {
                    let mut set = seq_io::$m::RecordSet::default();
                    loop {
                        match rdr.read_record_set(&mut set) {
                            None => break,
                            Some(Err(e)) => {
                                last = $errjson(&e);
                                break;
                            }
                            Some(Ok(())) => {
                                let p: Option<(u64, u64)> = $posof(&rdr);
                                let (l, b) = p.map(|(l, b)| (l as i64, b as i64)).unwrap_or((-1, -1));
                                let first = count + 1;
                                let mut i = 0;
                                let mut near = false;
                                for rec in &set {
                                    i += 1;
                                    if sm.binary_search(&(count + i)).is_ok() {
                                        near = true;
                                        obs.push(format!("{{\"k\":{},\"head\":{},\"rawseqlen\":{},\"line\":0,\"byte\":0}}", count + i, jb(rec.head()), rec.seq().len()));
                                    }
                                }
                                if i != set.len() {
                                    obs.push("{\"k\":0,\"head\":[],\"rawseqlen\":0,\"line\":0,\"byte\":0}".into());
                                }
                                count += i;
                                // the position after a set read denotes the next unread record
                                let _ = first;
                                if seekpos.is_none() && p.is_some() && count + 1 >= seek_k && count + 1 <= n {
                                    seekpos = Some(rdr.position().clone().into_pos());
                                    seek_target = count + 1;
                                    near = true;
                                }
                                if near || sm.binary_search(&(count + 1)).is_ok() {
                                obs.push(format!("{{\"k\":-1,\"next\":{},\"head\":[],\"rawseqlen\":0,\"line\":{},\"byte\":{}}}", count + 1, l, b));
                                }
                            }
                        }
                    }
                }
                // seek far into the file (to a position the reader itself reported) and read on
                let mut after_seek = String::from("{\"done\":false}");
                if let Some(p) = seekpos {
                    let sr = rdr.seek(&p);
                    let nx = match rdr.next() {
                        None => "{\"k\":\"none\"}".to_string(),
                        Some(Err(e)) => $errjson(&e),
                        Some(Ok(rec)) => format!("{{\"k\":\"rec\",\"head\":{}}}", jb(rec.head())),
                    };
                    let p2: Option<(u64, u64)> = $posof(&rdr);
                    let (l, b) = p2.map(|(l, b)| (l as i64, b as i64)).unwrap_or((-1, -1));
                    after_seek = format!("{{\"done\":true,\"ok\":{},\"target\":{},\"res\":{},\"line\":{},\"byte\":{}}}", sr.is_ok(), seek_target, nx, l, b);
                }
                format!("\"count\":{},\"last\":{},\"obs\":[{}],\"seek\":{}", count, last, obs.join(","), after_seek)
            }));
            let body = match r {
                Ok(s) => format!("\"panic\":false,{}", s),
                Err(_) => "\"panic\":true,\"count\":0,\"last\":{\"k\":\"panic\"},\"obs\":[],\"seek\":{\"done\":false}".to_string(),
            };
            format!("{{\"ev\":\"long\",\"fmt\":\"{}\",\"n\":{},\"cap\":{},\"crlf\":{},\"bad\":{},\"mode\":\"{}\",{}}}", fmt, n, cap, crlf, bad, mode, body)
        }
    };
}

trait IntoPos<P> {
    fn into_pos(self) -> P;
}
impl IntoPos<seq_io::fasta::Position> for Option<&seq_io::fasta::Position> {
    fn into_pos(self) -> seq_io::fasta::Position {
        self.cloned().unwrap_or_else(|| seq_io::fasta::Position::new(0, 0))
    }
}
impl IntoPos<seq_io::fastq::Position> for seq_io::fastq::Position {
    fn into_pos(self) -> seq_io::fastq::Position {
        self
    }
}

fn fa_pos<R: std::io::Read, P: seq_io::policy::BufPolicy>(r: &seq_io::fasta::Reader<R, P>) -> Option<(u64, u64)> {
    r.position().map(|p| (p.line(), p.byte()))
}
fn fq_pos<R: std::io::Read, P: seq_io::policy::BufPolicy>(r: &seq_io::fastq::Reader<R, P>) -> Option<(u64, u64)> {
    let p = r.position();
    Some((p.line(), p.byte()))
}

long_driver!(run_fasta, fasta, fa_pos, crate::reader::fa::err_json);
long_driver!(run_fastq, fastq, fq_pos, crate::reader::fq::err_json);

/// one giant record followed by a small one: FASTA ">big d" with m sequence lines of w bytes (line i starts with
/// "ACGT"[i % 4] and goes on with 'N's), FASTQ "@big d" with a sequence and a quality line of w bytes
fn render_giant(fmt: &str, m: usize, w: usize, crlf: bool) -> Vec<u8> {
    let e: &[u8] = if crlf { b"\r\n" } else { b"\n" };
    let mut x = Vec::with_capacity(m * (w + 2) * 2 + 64);
    if fmt == "fasta" {
        x.extend(b">big d");
        x.extend(e);
        for i in 1..=m {
            if w > 0 {
                x.push(b"ACGT"[i % 4]);
                x.extend(std::iter::repeat(b'N').take(w - 1));
            }
            x.extend(e);
        }
        x.extend(b">next");
        x.extend(e);
        x.extend(b"AC");
        x.extend(e);
    } else {
        x.extend(b"@big d");
        x.extend(e);
        x.extend(std::iter::repeat(b'A').take(w));
        x.extend(e);
        x.extend(b"+");
        x.extend(e);
        x.extend(std::iter::repeat(b'I').take(w));
        x.extend(e);
        x.extend(b"@next");
        x.extend(e);
        x.extend(b"AC");
        x.extend(e);
        x.extend(b"+");
        x.extend(e);
        x.extend(b"II");
        x.extend(e);
    }
    x
}

fn giant_fasta(m: usize, w: usize, cap: usize, crlf: bool, via_set: bool) -> String {
    use seq_io::fasta::Record as _;
    let x = render_giant("fasta", m, w, crlf);
    let sm = samples(m);
    let r = std::panic::catch_unwind(std::panic::AssertUnwindSafe(|| {
        let mut rdr = seq_io::fasta::Reader::with_capacity(std::io::Cursor::new(&x[..]), cap);
        let mut set = seq_io::fasta::RecordSet::default();
        let describe = |rec: &seq_io::fasta::RefRecord| -> String {
            let mut lines = vec![];
            let mut i = 0usize;
            let mut total = 0usize;
            for l in rec.seq_lines() {
                i += 1;
                total += l.len();
                if sm.binary_search(&i).is_ok() {
                    lines.push(format!("{{\"i\":{},\"len\":{},\"first\":{}}}", i, l.len(), l.first().map(|b| *b as i64).unwrap_or(-1)));
                }
            }
            let back = rec.seq_lines().next_back().map(|l| l.len() as i64).unwrap_or(-1);
            format!(
                "{{\"k\":\"rec\",\"head\":{},\"nlines\":{},\"iterated\":{},\"len_hint\":{},\"sum\":{},\"owned\":{},\"full\":{},\"raw\":{},\"last_from_back\":{},\"lines\":[{}]}}",
                jb(rec.head()), rec.num_seq_lines(), i, rec.seq_lines().len(), total, rec.owned_seq().len(), rec.full_seq().len(), rec.seq().len(), back, lines.join(",")
            )
        };
        let (first, p1, second, p2);
        if via_set {
            let ok = matches!(rdr.read_record_set(&mut set), Some(Ok(())));
            let recs: Vec<String> = if ok { set.into_iter().map(|r| describe(&r)).collect() } else { vec![] };
            first = recs.get(0).cloned().unwrap_or_else(|| "{\"k\":\"none\"}".into());
            second = if recs.len() > 1 {
                recs[1].clone()
            } else {
                match rdr.next() {
                    Some(Ok(r)) => describe(&r),
                    Some(Err(e)) => crate::reader::fa::err_json(&e),
                    None => "{\"k\":\"none\"}".into(),
                }
            };
            p1 = None;
            p2 = None;
        } else {
            first = match rdr.next() {
                Some(Ok(r)) => describe(&r),
                Some(Err(e)) => crate::reader::fa::err_json(&e),
                None => "{\"k\":\"none\"}".into(),
            };
            p1 = fa_pos(&rdr);
            second = match rdr.next() {
                Some(Ok(r)) => describe(&r),
                Some(Err(e)) => crate::reader::fa::err_json(&e),
                None => "{\"k\":\"none\"}".into(),
            };
            p2 = fa_pos(&rdr);
        }
        let third_none = rdr.next().is_none();
        let pj = |p: Option<(u64, u64)>| p.map(|(l, b)| format!("[{},{}]", l, b)).unwrap_or_else(|| "[]".into());
        format!("\"first\":{},\"pos1\":{},\"second\":{},\"pos2\":{},\"then_none\":{}", first, pj(p1), second, pj(p2), third_none)
    }));
    let body = match r {
        Ok(s) => format!("\"panic\":false,{}", s),
        Err(_) => "\"panic\":true".to_string(),
    };
    format!("{{\"ev\":\"giant\",\"fmt\":\"fasta\",\"m\":{},\"w\":{},\"cap\":{},\"crlf\":{},\"via_set\":{},{}}}", m, w, cap, crlf, via_set, body)
}

fn giant_fastq(w: usize, cap: usize, crlf: bool, via_set: bool) -> String {
    use seq_io::fastq::Record as _;
    let x = render_giant("fastq", 1, w, crlf);
    let r = std::panic::catch_unwind(std::panic::AssertUnwindSafe(|| {
        let mut rdr = seq_io::fastq::Reader::with_capacity(std::io::Cursor::new(&x[..]), cap);
        let mut set = seq_io::fastq::RecordSet::default();
        let describe = |rec: &seq_io::fastq::RefRecord| -> String {
            let o = rec.to_owned_record();
            format!(
                "{{\"k\":\"rec\",\"head\":{},\"seqlen\":{},\"quallen\":{},\"oseqlen\":{},\"oquallen\":{},\"seq_first\":{},\"seq_last\":{},\"qual_first\":{},\"qual_last\":{}}}",
                jb(rec.head()), rec.seq().len(), rec.qual().len(), o.seq.len(), o.qual.len(),
                rec.seq().first().map(|b| *b as i64).unwrap_or(-1), rec.seq().last().map(|b| *b as i64).unwrap_or(-1),
                rec.qual().first().map(|b| *b as i64).unwrap_or(-1), rec.qual().last().map(|b| *b as i64).unwrap_or(-1)
            )
        };
        let (first, p1, second, p2);
        if via_set {
            let ok = matches!(rdr.read_record_set(&mut set), Some(Ok(())));
            let recs: Vec<String> = if ok { set.into_iter().map(|r| describe(&r)).collect() } else { vec![] };
            first = recs.get(0).cloned().unwrap_or_else(|| "{\"k\":\"none\"}".into());
            second = if recs.len() > 1 {
                recs[1].clone()
            } else {
                match rdr.next() {
                    Some(Ok(r)) => describe(&r),
                    Some(Err(e)) => crate::reader::fq::err_json(&e),
                    None => "{\"k\":\"none\"}".into(),
                }
            };
            p1 = None;
            p2 = None;
        } else {
            first = match rdr.next() {
                Some(Ok(r)) => describe(&r),
                Some(Err(e)) => crate::reader::fq::err_json(&e),
                None => "{\"k\":\"none\"}".into(),
            };
            p1 = fq_pos(&rdr);
            second = match rdr.next() {
                Some(Ok(r)) => describe(&r),
                Some(Err(e)) => crate::reader::fq::err_json(&e),
                None => "{\"k\":\"none\"}".into(),
            };
            p2 = fq_pos(&rdr);
        }
        let third_none = rdr.next().is_none();
        let pj = |p: Option<(u64, u64)>| p.map(|(l, b)| format!("[{},{}]", l, b)).unwrap_or_else(|| "[]".into());
        format!("\"first\":{},\"pos1\":{},\"second\":{},\"pos2\":{},\"then_none\":{}", first, pj(p1), second, pj(p2), third_none)
    }));
    let body = match r {
        Ok(s) => format!("\"panic\":false,{}", s),
        Err(_) => "\"panic\":true".to_string(),
    };
    format!("{{\"ev\":\"giant\",\"fmt\":\"fastq\",\"m\":1,\"w\":{},\"cap\":{},\"crlf\":{},\"via_set\":{},{}}}", w, cap, crlf, via_set, body)
}

/// wrapped writing of a long sequence: the output is described by its header line, the run-length encoded lengths of
/// its sequence lines and whether the lines joined are the sequence that was written
fn long_write(len: usize, w: usize, how: &str) -> String {
    let seq: Vec<u8> = (0..len).map(|i| b"ACGT"[i % 4]).collect();
    let r = std::panic::catch_unwind(std::panic::AssertUnwindSafe(|| {
        let mut o = vec![];
        match how {
            "write_wrap" => seq_io::fasta::write_wrap(&mut o, b"id", Some(b"d"), &seq, w).unwrap(),
            "owned_wrap" => {
                use seq_io::fasta::Record as _;
                seq_io::fasta::OwnedRecord { head: b"id d".to_vec(), seq: seq.clone() }.write_wrap(&mut o, w).unwrap()
            }
            _ => {
                seq_io::fasta::write_head(&mut o, b"id d").unwrap();
                seq_io::fasta::write_wrap_seq_iter(&mut o, seq.chunks(1000), w).unwrap()
            }
        }
        let ends_lf = o.last() == Some(&b'\n');
        let mut lines: Vec<&[u8]> = o.split(|b| *b == b'\n').collect();
        if ends_lf {
            lines.pop();
        }
        let head = lines.first().map(|l| l.to_vec()).unwrap_or_default();
        let body = if lines.is_empty() { &lines[..] } else { &lines[1..] };
        let joined: Vec<u8> = body.concat();
        let mut rle: Vec<(usize, usize)> = vec![];
        for l in body {
            match rle.last_mut() {
                Some((n, c)) if *n == l.len() => *c += 1,
                _ => rle.push((l.len(), 1)),
            }
        }
        format!(
            "\"headline\":{},\"ends_lf\":{},\"joined_is_seq\":{},\"nbytes\":{},\"rle\":[{}]",
            jb(&head), ends_lf, joined == seq, o.len(), rle.iter().map(|(n, c)| format!("[{},{}]", n, c)).collect::<Vec<_>>().join(",")
        )
    }));
    let body = match r {
        Ok(s) => format!("\"panic\":false,{}", s),
        Err(_) => "\"panic\":true".to_string(),
    };
    format!("{{\"ev\":\"longw\",\"fmt\":\"fasta\",\"cap\":0,\"len\":{},\"w\":{},\"how\":\"{}\",{}}}", len, w, how, body)
}

pub fn cmd_long(out: &str, _seed: u64, thorough: bool) {
    let mut f = std::io::BufWriter::new(std::fs::File::create(out).unwrap());
    let mut cases = 0usize;
    let ns: Vec<usize> = if thorough { vec![300, 66000, 140000] } else { vec![300, 66000] };
    for fmt in ["fasta", "fastq"] {
        for &n in &ns {
            for cap in [64usize, 65536] {
                for crlf in [false, true] {
                    for bad in [false, true] {
                        if fmt == "fasta" && bad {
                            continue; // FASTA knows no error after the first record
                        }
                        for mode in ["next", "set"] {
                            let line = if fmt == "fasta" { run_fasta(fmt, n, cap, crlf, bad, mode) } else { run_fastq(fmt, n, cap, crlf, bad, mode) };
                            writeln!(f, "{}", line).unwrap();
                            cases += 1;
                        }
                    }
                }
            }
        }
    }
    // one record set that holds more than 65 535 records (a buffer of 4 MiB)
    for fmt in ["fasta", "fastq"] {
        let line = if fmt == "fasta" { run_fasta(fmt, 70000, 4 << 20, false, false, "set") } else { run_fastq(fmt, 70000, 4 << 20, false, true, "set") };
        writeln!(f, "{}", line).unwrap();
        cases += 1;
    }
    // giant records: many lines, long lines, lengths around the default buffer size of 64 KiB
    let shapes: Vec<(usize, usize)> = if thorough { vec![(70000, 3), (140000, 1), (3, 70000), (1, 65535), (1, 65536), (1, 65537), (1, 200000), (300, 300)] } else { vec![(70000, 3), (3, 70000), (1, 65536), (1, 200000), (300, 300)] };
    for &(m, w) in &shapes {
        for cap in [64usize, 65536] {
            for crlf in [false, true] {
                for via_set in [false, true] {
                    writeln!(f, "{}", giant_fasta(m, w, cap, crlf, via_set)).unwrap();
                    cases += 1;
                    if m == 1 {
                        writeln!(f, "{}", giant_fastq(w, cap, crlf, via_set)).unwrap();
                        cases += 1;
                    }
                }
            }
        }
    }
    // wrapped writing of long sequences with widths around 2^8 and 2^16
    for len in if thorough { vec![70000usize, 131072, 200001] } else { vec![70000usize, 131072] } {
        for w in [255usize, 256, 257, 4096, 65535, 65536, 65537] {
            for how in ["write_wrap", "owned_wrap", "iter"] {
                writeln!(f, "{}", long_write(len, w, how)).unwrap();
                cases += 1;
            }
        }
    }
    f.flush().unwrap();
    println!("{{\"cases\":{}}}", cases);
}
