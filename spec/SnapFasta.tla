------------------------------ MODULE SnapFasta ------------------------------
(* Drift detector for the level-(B) model FastaReader: prints, for every      *)
(* behaviour, the private reader state the MODEL predicts at each return of   *)
(* next(). The harness records the real reader's verif_snapshot() for the     *)
(* same (input, capacity) with the same bounded-doubling policy, and the      *)
(* runner compares them. A difference is model drift (a NOTE, never a         *)
(* verdict): it says the code is no longer the algorithm that was             *)
(* model-checked, even if its observable results are still right.             *)
EXTENDS FastaReader, Json
VARIABLE cap0
SInit == Init /\ cap0 = cap
SNext == Next /\ UNCHANGED cap0
SSpec == SInit /\ [][SNext]_<<vars, cap0>>
StNum == CASE st = "New" -> 0 [] st = "Parsing" -> 1 [] st = "Incomplete" -> 2 [] st = "Positioned" -> 3 [] st = "Finished" -> 4
Emit == pc = "ret" => PrintT(<<"SNAP", ToJson([x |-> x, cap0 |-> cap0, call |-> ncalls, state |-> StNum, buf_len |-> Len(buf), cap |-> cap,
                                               start |-> start, search_pos |-> spos, seq_pos |-> seqpos, pos_line |-> pline, pos_byte |-> pbyte,
                                               kind |-> ret.kind])>>)
=============================================================================
