CONSTANTS MaxLen = 5 MaxWidth = 6 MaxChunks = 5
SPECIFICATION Spec
INVARIANTS RoundTrip WidthOK ChunkedEqualsWhole BudgetInvariant
PROPERTY Terminates
CHECK_DEADLOCK FALSE
