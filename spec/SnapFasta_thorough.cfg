CONSTANTS Alphabet = {10, 13, 62, 65} MaxLen = 6 Caps = {3,4,5,6} GrowLimit = 64 MaxCalls = 4
SPECIFICATION SSpec
INVARIANT Emit
CHECK_DEADLOCK FALSE
