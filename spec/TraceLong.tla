------------------------------ MODULE TraceLong ------------------------------
(* Long regular inputs: n records of one fixed shape, numbered in their        *)
(* headers (FASTA ">000017 d / ACGT / AC", FASTQ "@000017 d / ACGT / + /       *)
(* IIII"), LF or CRLF, optionally followed by a group that starts no record.  *)
(* The file is known from its description, so what the format rules and C05 / *)
(* C17 demand at record k is arithmetic: header, line number, byte offset,     *)
(* number of records, the line of the final error, where a seek to a reported  *)
(* position lands. The harness reports these at sampled indices around 2^7,    *)
(* 2^8, 2^15, 2^16 and at the end: counters that silently wrap or are narrowed *)
(* show here and nowhere in the small-scope suites. One line = one run = one   *)
(* TLC state.                                                                  *)
EXTENDS ReaderA, Json, IOUtils, TLC
Rec == ndJsonDeserialize(IOEnv.TRACE)
VARIABLE l
Init == l = 1

Pad6(k) == LET d == Dec(k) IN [i \in 1..(6 - Len(d)) |-> 48] \o d
HeadOf(k) == Pad6(k) \o <<32, 100>>                 \* "000017 d"
LinesPerRec(fmt) == IF fmt = "fasta" THEN 3 ELSE 4
\* bytes per record: marker + 8 header bytes, ACGT, then AC (FASTA) or + and IIII (FASTQ), each line with its terminator
BytesPerRec(fmt, crlf) == LET e == IF crlf THEN 2 ELSE 1 IN
                          IF fmt = "fasta" THEN (9 + e) + (4 + e) + (2 + e) ELSE (9 + e) + (4 + e) + (1 + e) + (4 + e)
LineOf(fmt, k) == LinesPerRec(fmt) * (k - 1) + 1
ByteOf(fmt, crlf, k) == BytesPerRec(fmt, crlf) * (k - 1)
\* the raw sequence of a FASTA record spans both lines and the terminator between them
RawSeqLen(fmt, crlf) == IF fmt = "fasta" THEN 4 + (IF crlf THEN 2 ELSE 1) + 2 ELSE 4

Viol(r) ==
  LET fmt == r.fmt
      base == IF fmt = "fasta" THEN "C01" ELSE "C02"
      recs == {i \in 1..Len(r.obs) : r.obs[i].k > 0}
      bounds == {i \in 1..Len(r.obs) : r.obs[i].k = -1}
      conj == <<
        <<"C06", "panic", ~r.panic>>,
        <<base, "number_of_records", r.panic \/ r.count = r.n>>,
        <<base, "record_content_at_index", \A i \in recs : r.obs[i].head = HeadOf(r.obs[i].k) /\ r.obs[i].rawseqlen = RawSeqLen(fmt, r.crlf)>>,
        <<"C04", "record_set_yields_len_items", \A i \in 1..Len(r.obs) : r.obs[i].k # 0>>,
        \* (line = -1: the reader reports no position in this state, as the FASTA reader does after a record-set read)
        <<"C05", "position_of_returned_record", r.mode # "next" \/ \A i \in recs :
              r.obs[i].line = LineOf(fmt, r.obs[i].k) /\ r.obs[i].byte = ByteOf(fmt, r.crlf, r.obs[i].k)>>,
        \* after a set read the position denotes the next unread record (if there is one)
        <<"C05", "position_after_record_set", \A i \in bounds : r.obs[i].next > r.n \/ r.obs[i].line = -1 \/
              (r.obs[i].line = LineOf(fmt, r.obs[i].next) /\ r.obs[i].byte = ByteOf(fmt, r.crlf, r.obs[i].next))>>,
        \* a final line that starts no record: all n records first, then its error (set reads: "only records that precede
        \* it, then its error") with its line number; otherwise the end of the input
        <<base, "final_result_kind", r.panic \/ r.last.k = (IF r.bad THEN "invalid_start" ELSE "none")>>,
        <<"C17", "final_error_line", r.last.k # "invalid_start" \/ (r.last.line = LineOf(fmt, r.n + 1) /\ r.last.found = 120)>>,
        <<"C05", "seek_to_reported_position", r.panic \/ ~r.seek.done \/
              (r.seek.ok /\ r.seek.res.k = "rec" /\ r.seek.res.head = HeadOf(r.seek.target)
               /\ r.seek.line = LineOf(fmt, r.seek.target) /\ r.seek.byte = ByteOf(fmt, r.crlf, r.seek.target))>>,
        \* all records have the same shape: a set read that holds no more records than an earlier one, and the read after a
        \* far seek, need no memory (C18)
        <<"C18", "set_read_allocated_in_steady_state", "steady_allocs" \notin DOMAIN r \/ r.steady_allocs = 0>>,
        <<"C18", "next_allocated_after_seek", r.panic \/ ~r.seek.done \/ "allocs_in_next" \notin DOMAIN r.seek \/ r.seek.allocs_in_next = 0>>,
        \* the source of these runs never fails (it is slow and interrupted at most): no I/O error may surface (C14)
        <<"C14", "io_error_without_source_error", r.last.k # "io">>,
        <<"C05", "seek_target_reached", r.panic \/ r.count < r.n \/ r.n < 2 \/ r.mode # "next" \/ r.seek.done>>
      >>
  IN {<<conj[i][1], conj[i][2]>> : i \in {i \in 1..Len(conj) : ~conj[i][3]}}

\* ---- one giant record followed by a small one: FASTA ">big d" with m sequence lines of w bytes (line i starts with
\* "ACGT"[i % 4]), FASTQ "@big d" with a sequence of w 'A's and a quality of w 'I's; then ">next / AC" resp. "@next / AC / + / II"
ACGT == <<65, 67, 71, 84>>
BigHead == <<98, 105, 103, 32, 100>>
NextHead == <<110, 101, 120, 116>>
GiantViol(r) ==
  LET fmt == r.fmt
      base == IF fmt = "fasta" THEN "C01" ELSE "C02"
      e == IF r.crlf THEN 2 ELSE 1
      m == r.m
      w == r.w
      a == r.first
      b == r.second
      alt == IF "alt" \in DOMAIN r THEN r.alt ELSE 0
      extra == IF "extra" \in DOMAIN r THEN r.extra ELSE 0
      WidthOf(i) == IF alt > 0 /\ i % 2 = 1 THEN alt ELSE w
      nOdd == (m + 1) \div 2
      total == IF alt > 0 THEN nOdd * alt + (m - nOdd) * w ELSE m * w
      firstBytes == IF fmt = "fasta" THEN (6 + e) + total + m * e ELSE (6 + e) + (w + e) + (1 + e) + (w + extra + e)
      firstLines == IF fmt = "fasta" THEN m + 1 ELSE 4
      faFirst == a.k = "rec" /\ a.head = BigHead /\ a.iterated = m /\ a.sum = total
                 /\ \A i \in 1..Len(a.lines) : a.lines[i].len = WidthOf(a.lines[i].i) /\ a.lines[i].first = ACGT[(a.lines[i].i % 4) + 1]
      faViews == a.k # "rec" \/ (a.nlines = m /\ a.len_hint = m /\ a.owned = total /\ a.full = total /\ a.raw = total + (m - 1) * e /\ a.last_from_back = WidthOf(m))
      \* RefRecord::write: the header line, then the whole sequence on one line
      faWrite == a.k # "rec" \/ "write" \notin DOMAIN a \/ (a.write.headline = <<62>> \o BigHead /\ a.write.ends_lf /\ a.write.joined_is_seq /\ a.write.nlines = 1)
      serdeOK == (a.k # "rec" \/ "serde_owned_eq" \notin DOMAIN a \/ a.serde_owned_eq) /\ ("serde_set_same" \notin DOMAIN r \/ r.serde_set_same)
                 /\ (fmt = "fasta" \/ a.k # "rec" \/ "serde_quallen" \notin DOMAIN a \/ a.serde_quallen = w)
      \* FASTQ with a quality line longer than the sequence by a multiple of 2^16: one error of unequal lengths, then the end
      fqUnequal == a.k = "unequal" /\ a.line = 1 /\ a.seq = w /\ a.qual = w + extra /\ b.k = "none"
      fqFirst == a.k = "rec" /\ a.head = BigHead /\ a.seqlen = w /\ a.quallen = w /\ a.seq_first = 65 /\ a.seq_last = 65 /\ a.qual_first = 73 /\ a.qual_last = 73
      fqViews == a.k # "rec" \/ (a.oseqlen = w /\ a.oquallen = w)
      second == b.k = "rec" /\ b.head = NextHead /\ (IF fmt = "fasta" THEN b.iterated = 1 /\ b.sum = 2 ELSE b.seqlen = 2 /\ b.quallen = 2)
      conj == IF r.panic THEN << <<"C06", "panic", FALSE>> >>
              ELSE IF extra > 0 THEN << <<"C02", "unequal_lengths_not_reported", fqUnequal>>, <<"C17", "error_fields", a.k # "unequal" \/ fqUnequal>> >>
              ELSE <<
        <<"C10", "record_write_roundtrip", fmt # "fasta" \/ faWrite>>,
        <<"C11", "record_write_roundtrip", fmt # "fastq" \/ a.k # "rec" \/ "written_line_lens" \notin DOMAIN a \/ a.written_line_lens = <<6, w, 1, w, 0>> >>,
        <<"C19", "roundtrip_of_giant_record", serdeOK>>,
        <<base, "giant_record_content", IF fmt = "fasta" THEN faFirst ELSE fqFirst>>,
        <<"C13", "giant_record_views", IF fmt = "fasta" THEN faViews ELSE fqViews>>,
        <<base, "record_after_giant_record", second>>,
        <<base, "end_after_last_record", r.then_none>>,
        <<"C05", "position_of_returned_record", (r.pos1 = <<>> \/ r.pos1 = <<1, 0>>) /\ (r.pos2 = <<>> \/ r.pos2 = <<firstLines + 1, firstBytes>>)>>
      >>
  IN {<<conj[i][1], conj[i][2]>> : i \in {i \in 1..Len(conj) : ~conj[i][3]}}

\* ---- wrapped writing of a long sequence (C10): the header line, then lines of exactly the wrap width and a last, shorter,
\* non-empty one; joined they are the sequence
LongWriteViol(r) ==
  LET full == IF r.w = 0 THEN 0 ELSE r.len \div r.w
      rest == IF r.w = 0 THEN 0 ELSE r.len % r.w
      want == (IF full > 0 THEN << <<r.w, full>> >> ELSE <<>>) \o (IF rest > 0 THEN << <<rest, 1>> >> ELSE <<>>)
      conj == IF r.panic THEN << <<"C10", "write_function_panicked", FALSE>> >> ELSE <<
        <<"C10", "long_wrap_header_line", r.headline_is_head /\ r.ends_lf>>,
        <<"C10", "long_wrap_roundtrip", r.joined_is_seq>>,
        <<"C10", "long_wrap_width", r.rle = (IF r.w = 0 THEN << <<r.len, 1>> >> ELSE want)>>
      >>
  IN {<<conj[i][1], conj[i][2]>> : i \in {i \in 1..Len(conj) : ~conj[i][3]}}

\* ---- the built-in policies asked directly (C09: "the built-in policies compute the documented sizes"); answers are logged
\* clamped to 2^31 - 1
PolViol(r) ==
  IF r.panic THEN {<<"C09", "builtin_policy_panicked">>}
  ELSE IF \E i \in 1..Len(r.rows) : LET want == PolicyAns(r.rows[i].p, r.rows[i].c) IN want >= 0 /\ r.rows[i].a # want
       THEN {<<"C09", "builtin_policy_arithmetic">>} ELSE {}

\* the same 9 MiB record read with an initial capacity of 64 KiB, of 8 MiB and of 16 MiB (no growth needed): C03 - the outcome
\* is the same for every initial capacity (the default policy permits every size)
GiantCmpViol(r) ==
  LET Sum(x) == IF x.ev = "stuck" THEN [stuck |-> TRUE]
                ELSE IF x.panic THEN [panic |-> TRUE]
                ELSE [first |-> x.first, second |-> x.second, then_none |-> x.then_none]
  IN IF \E i, j \in 1..Len(r.runs) : Sum(r.runs[i]) # Sum(r.runs[j]) THEN {<<"C03", "outcome_depends_on_the_initial_capacity">>} ELSE {}

\* ---- far seeks (harness far.rs): a virtual file of more than 2^32 records of 32 bytes each, record k (0-based, two limbs
\* <<kh, kl>> to base 2^16, because TLC's integers have 32 bits) has the header "KKKKKKKKKK.LLLLL d", starts at byte 32 k and at
\* line 4 k + 1 (FASTQ) / 3 k + 1 (FASTA). A script of next / set / seek steps; the abstract state is the index of the next
\* unread record. Offsets, line numbers and seek distances beyond 2^31 / 2^32: C05 ("seeking to the position of any record -
\* whether or not the target is still inside the buffer"), C04 (the same records from the seek target onwards on every path).
Norm2(hi, lo) == <<hi + lo \div 65536, lo % 65536>>
Add2(c, n) == Norm2(c[1], c[2] + n)
Mul2(c, f, plus) == Norm2(c[1] * f, c[2] * f + plus)
Less2(a, b) == a[1] < b[1] \/ (a[1] = b[1] /\ a[2] < b[2])
PadN(n, d) == [i \in 1..(n - Len(d)) |-> 48] \o d
HeadFar(c) == PadN(10, Dec(c[1])) \o <<46>> \o PadN(5, Dec(c[2])) \o <<32, 100>>
LineFar(fmt, c) == Mul2(c, LinesPerRec(fmt), 1)
ByteFar(c) == Mul2(c, 32, 0)
RECURSIVE FarFold(_, _, _, _, _)
FarFold(r, i, cur, seeked, acc) ==
  IF i > Len(r.steps) THEN acc
  ELSE LET st == r.steps[i]
           base == IF r.fmt = "fasta" THEN "C01" ELSE "C02"
           tagC == IF seeked THEN {"C05", "C04"} ELSE {base}
           atEnd == ~Less2(cur, r.nrec)
           T(ps, why) == {<<q, why>> : q \in ps}
       IN IF st.op = "seek" THEN
            FarFold(r, i + 1, st.t, TRUE, acc \cup (IF st.ok THEN {} ELSE T({"C05", "C14"}, "seek_failed_without_source_error")))
          ELSE IF st.op = "next" THEN
            IF atEnd THEN FarFold(r, i + 1, cur, seeked, acc \cup (IF st.k = "none" THEN {} ELSE T(tagC, "result_after_the_last_record")))
            ELSE IF st.k # "rec" THEN acc \cup T(tagC, "far_record_not_returned")      \* (the stream is lost: stop judging)
            ELSE FarFold(r, i + 1, Add2(cur, 1), seeked,
                         acc \cup (IF st.head = HeadFar(cur) THEN {} ELSE T(tagC, "far_record_content"))
                             \cup (IF st.line = LineFar(r.fmt, cur) /\ st.byte = ByteFar(cur) THEN {} ELSE T({"C05"}, "far_position_of_returned_record")))
          ELSE \* set
            IF atEnd THEN FarFold(r, i + 1, cur, seeked, acc \cup (IF st.k = "none" THEN {} ELSE T(tagC, "result_after_the_last_record")))
            ELSE IF st.k # "some" \/ st.n < 1 THEN acc \cup T(tagC \cup {"C04"}, "far_record_set_not_returned")
            ELSE LET nxt == Add2(cur, st.n)
                     headsOK == \A j \in 1..Len(st.heads) : st.heads[j].head = HeadFar(Add2(cur, st.heads[j].i))
                     within == ~Less2(r.nrec, nxt)
                     posOK == ~st.pos.has \/ ~Less2(nxt, r.nrec) \/ (st.pos.line = LineFar(r.fmt, nxt) /\ st.pos.byte = ByteFar(nxt))
                 IN FarFold(r, i + 1, nxt, seeked,
                            acc \cup (IF headsOK /\ within THEN {} ELSE T(tagC \cup {"C04"}, "far_record_set_content"))
                                \cup (IF posOK THEN {} ELSE T({"C05"}, "far_position_after_record_set")))
FarViol(r) == IF r.panic THEN {<<"C06", "panic">>, <<"C05", "panic_in_far_seek_script">>, <<"C04", "panic_in_far_seek_script">>}
              ELSE FarFold(r, 1, <<0, 0>>, FALSE, IF Len(r.steps) = r.nsteps THEN {} ELSE {<<"C06", "script_not_completed">>})

\* a case that did not finish within a minute (C06: no input makes the readers loop forever; C10 for the writers)
StuckViol(r) == IF r.writing THEN {<<"C10", "write_function_hangs">>} ELSE {<<"C06", "hang">>}

Next == /\ l <= Len(Rec)
        /\ LET v == IF Rec[l].ev = "far" THEN FarViol(Rec[l]) ELSE IF Rec[l].ev = "giantcmp" THEN GiantCmpViol(Rec[l]) ELSE IF Rec[l].ev = "stuck" THEN StuckViol(Rec[l]) ELSE IF Rec[l].ev = "giant" THEN GiantViol(Rec[l]) ELSE IF Rec[l].ev = "longw" THEN LongWriteViol(Rec[l]) ELSE IF Rec[l].ev = "poltab" THEN PolViol(Rec[l]) ELSE Viol(Rec[l]) IN
             v # {} => PrintT(<<"MISMATCH", ToJson([kind |-> "long", line |-> l, run |-> l, props |-> {x[1] : x \in v}, why |-> {x[2] : x \in v},
                                                   extra |-> [fmt |-> Rec[l].fmt, cap |-> Rec[l].cap, ev |-> Rec[l].ev]])>>)
        /\ l' = l + 1
Spec == Init /\ [][Next]_l
Done == IF TLCGet("stats").diameter - 1 = Len(Rec) THEN TRUE ELSE Print(<<"NOT-CONSUMED", TLCGet("stats").diameter, Len(Rec)>>, FALSE)
=============================================================================
