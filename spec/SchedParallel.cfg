CONSTANT Configs = {}
CONSTANT MaxW = 3
SPECIFICATION SSpec
CHECK_DEADLOCK FALSE
