---------------------------- MODULE FastqFormat ----------------------------
(* What the records of a byte string are, read as FASTQ (properties C02,    *)
(* C17, positions of C05), with explicit zones where the property text      *)
(* does not determine the outcome (DESIGN.md 3.1: I2 = zone Z1, I3, I4).    *)
EXTENDS Bytes

\* The group of (up to) four lines starting at offset o, whose first line has number gl.
FqGroup(x, o, gl) ==
  LET lf == LFsFrom(x, o)
      n == Len(lf)
      rest == Sl(x, o, Len(x))
      endsLF == Len(x) > 0 /\ x[Len(x)] = LF
      \* the id an error may carry: none, or the id of the (complete) header line
      idopt(l1) == IF l1 - o >= 1 THEN {<<>>, <<IdOf(TrimCR(Sl(x, o + 1, l1)))>>} ELSE {<<>>}
  IN
  IF n < 3 THEN
     IF AllBlank(rest)
     THEN [rec |-> NoRec, okRec |-> FALSE, errs |-> {}, okEnd |-> TRUE, line |-> gl, byte |-> o,
           len |-> Len(x) - o, zone |-> FALSE, coords |-> FALSE, more |-> FALSE, next |-> Len(x), raw |-> <<>>]
     ELSE [rec |-> NoRec, okRec |-> FALSE, okEnd |-> FALSE, line |-> gl, byte |-> o,
           len |-> Len(x) - o, zone |-> FALSE, coords |-> TRUE, more |-> FALSE, next |-> Len(x), raw |-> <<>>,
           \* "the line on which the input ends": if the input ends right after a LF both the
           \* last complete line and the (empty) line after it are accepted
           errs |-> {ErrD("unexpected_end", {gl + n} \cup (IF endsLF /\ n >= 1 THEN {gl + n - 1} ELSE {}), 0, 0, 0,
                          IF n >= 1 THEN idopt(lf[1]) ELSE {<<>>})}]
  ELSE
     LET l1 == lf[1]  l2 == lf[2]  l3 == lf[3]
         eof4 == n = 3
         e == IF eof4 THEN Len(x) ELSE lf[4]
         head == TrimCR(Sl(x, o + 1, l1))
         seqc == Sl(x, l1 + 1, l2)
         qualc == Sl(x, l3 + 1, e)
         startOK == x[o + 1] = AT
         sepOK == x[l2 + 2] = PLUS
         \* documented domain of the length rule: both lines end alike, end of input counting as either
         inDomain == (HasCR(seqc) = HasCR(qualc)) \/ (eof4 /\ ~HasCR(qualc))
         lenOK == Len(TrimCR(seqc)) = Len(TrimCR(qualc))
         rec == [head |-> head, lines |-> <<TrimCR(seqc)>>, qual |-> TrimCR(qualc)]
         errs == (IF ~startOK THEN {ErrD("invalid_start", {gl}, x[o + 1], 0, 0, idopt(l1))} ELSE {})
                 \cup (IF ~sepOK THEN {ErrD("invalid_sep", {gl + 2}, x[l2 + 2], 0, 0, idopt(l1))} ELSE {})
                 \cup (IF ~lenOK \/ ~inDomain
                       THEN {ErrD("unequal", {gl}, 0, Len(TrimCR(seqc)), Len(TrimCR(qualc)), idopt(l1))}
                       ELSE {})
         valid == startOK /\ sepOK /\ (lenOK \/ ~inDomain)
         \* zone Z1: exactly three LF-terminated lines and then nothing
         z1 == eof4 /\ l3 = Len(x) - 1
         z1errs == IF z1 /\ ~AllBlank(rest) THEN {ErrD("unexpected_end", {gl + 2, gl + 3}, 0, 0, 0, idopt(l1))} ELSE {}
     IN [rec |-> rec, okRec |-> valid, errs |-> errs \cup z1errs, okEnd |-> z1 /\ AllBlank(rest),
         line |-> gl, byte |-> o, len |-> (IF eof4 THEN Len(x) ELSE e + 1) - o,
         zone |-> z1 \/ ~inDomain, coords |-> TRUE, more |-> ~eof4, next |-> e + 1,
         raw |-> Sl(x, o, IF eof4 THEN Len(x) ELSE e + 1)]

\* FqChain(x): groups in file order up to and including the first one after which reading
\* cannot go on; a final valid group that reaches the end of input is followed by the end element.
FqChain(x) ==
  LET lf == LFsFrom(x, 0)
      K == Len(lf) \div 4 + 1                       \* upper bound on the number of groups
      start(k) == IF k = 1 THEN 0 ELSE lf[4 * (k - 1)] + 1
      gs == [k \in 1..K |-> FqGroup(x, start(k), 4 * (k - 1) + 1)]
      live == {k \in 1..K : \A j \in 1..(k - 1) : gs[j].okRec /\ gs[j].more}
      last == Max(live)
      body == [k \in 1..last |-> gs[k]]
  IN IF gs[last].okRec /\ ~gs[last].more
     THEN body \o <<EndElem(gs[last].line + 4, Len(x)) @@ [more |-> FALSE, next |-> Len(x)]>>
     ELSE body
=============================================================================
