CONSTANT Configs = {}
CONSTANT MaxW = 2
SPECIFICATION QuickSpec
INVARIANTS Paired NoDup AllDelivered InOrder1 RecordsPaired RecordsInOrder SetsAreWhatReaderProduced
INVARIANTS ErrOnce ErrNoLater ErrDrain InitFailuresSurface ClosedOnlyAfterInitFailure PerRecordErrorsReturned
INVARIANTS BoundedSets ReaderAhead RecycledOnly CountAbstraction
PROPERTY Termination
