---------------------------- MODULE MCParallel ----------------------------
(* Model-checking configurations of Parallel: the configuration is chosen  *)
(* nondeterministically in Init, one TLC run covers all of them.           *)
EXTENDS Parallel
Ones(n) == [k \in 1..n |-> 1]
\* set level: every thread count / queue length / number of sets / error index / stop point / init failure
SetConfigs(maxW, maxQ, maxN) ==
  { [NW |-> nw, Q |-> qq, Sizes |-> Ones(n), ErrAt |-> e, StopAfter |-> st, RInitFail |-> rf, DInitFailAt |-> df,
     RDInitFailAt |-> 0, PerRecord |-> FALSE] :
      nw \in 1..maxW, qq \in 1..maxQ, n \in 0..maxN, e \in 0..(maxN + 1), st \in (0..(maxN + 2)) \cup {maxN + 5},
      rf \in BOOLEAN, df \in 0..(maxQ + 1) }
\* per-record layer: set sizes vary, so recycled output vectors are longer and shorter than the next set
SizeSeqs(maxN, maxS) == UNION { [1..n -> 0..maxS] : n \in 0..maxN }
RecConfigs(maxW, maxQ, maxN, maxS) ==
  { [NW |-> nw, Q |-> qq, Sizes |-> sz, ErrAt |-> e, StopAfter |-> maxN + 5, RInitFail |-> FALSE, DInitFailAt |-> 0,
     RDInitFailAt |-> rdf, PerRecord |-> TRUE] :
      nw \in 1..maxW, qq \in 1..maxQ, sz \in SizeSeqs(maxN, maxS), e \in 0..(maxN + 1), rdf \in 0..(maxS + 1) }
QuickConfigs == SetConfigs(2, 2, 3) \cup RecConfigs(2, 2, 3, 2)
ThoroughConfigs == SetConfigs(3, 3, 5) \cup RecConfigs(3, 2, 4, 3)
=============================================================================
