---------------------------- MODULE MCParallel ----------------------------
(* Model-checking configurations of Parallel: the configuration is chosen  *)
(* nondeterministically in the initial state, so one TLC run covers every  *)
(* combination.                                                             *)
EXTENDS Parallel
Ones(n) == [k \in 1..n |-> 1]
\* set level: every thread count / queue length / number of sets / error index / stop point / init failure
InitSet(maxW, maxQ, maxN) ==
  \E nw \in 1..maxW, qq \in 1..maxQ, n \in 0..maxN, e \in 0..(maxN + 1), st \in (0..(maxN + 2)) \cup {maxN + 5},
     rf \in BOOLEAN, df \in 0..(maxQ + 1) :
       InitWith([NW |-> nw, Q |-> qq, Sizes |-> Ones(n), ErrAt |-> e, StopAfter |-> st, RInitFail |-> rf, DInitFailAt |-> df,
                 RDInitFailAt |-> 0, PerRecord |-> FALSE])
\* per-record layer: set sizes vary, so recycled output vectors are longer and shorter than the next set
InitRec(maxW, maxQ, maxN, maxS) ==
  \E nw \in 1..maxW, qq \in 1..maxQ, n \in 0..maxN, e \in 0..(maxN + 1), rdf \in 0..(maxS + 1) :
    \E sz \in [1..n -> 0..maxS] :
       InitWith([NW |-> nw, Q |-> qq, Sizes |-> sz, ErrAt |-> e, StopAfter |-> maxN + 5, RInitFail |-> FALSE, DInitFailAt |-> 0,
                 RDInitFailAt |-> rdf, PerRecord |-> TRUE])
QuickSpec == (InitSet(2, 2, 3) \/ InitRec(2, 2, 2, 2)) /\ [][Next]_vars /\ Fair
ThoroughSpec == (InitSet(3, 3, 5) \/ InitRec(3, 2, 3, 3)) /\ [][Next]_vars /\ Fair
=============================================================================
