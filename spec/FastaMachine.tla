---------------------------- MODULE FastaMachine ----------------------------
(* Level (B), big-step: the whole public state machine of fasta::Reader as   *)
(* functions on its private state - next(), read_record_set(_exact)(),       *)
(* seek(), with init / first_byte, search / _search, resume_incomplete_-     *)
(* search (grow or make_room, refill), increment_record, and the record set  *)
(* (positions incl. the stale tail, npos, buffer copy). Each function is     *)
(* written after the code (post fix: commits), loops as RECURSIVE operators. *)
(* The source delivers as much as is asked for (chunking is covered by       *)
(* BufRedux and by trace validation) and may fail once, at its failAt-th     *)
(* operation (a fill or a real seek); the policy doubles up to GrowLimit and *)
(* then refuses.                                                             *)
(*                                                                           *)
(* MCFastaMachine explores every input up to MaxLen, every capacity in Caps  *)
(* and every history of calls up to MaxOps, builds for each call the event   *)
(* the harness would log and passes it through ReaderA!Judge: the            *)
(* refinement (B) => (A) for mixed histories (C04, C05, C09, C06 at model    *)
(* level). SnapFastaMachine prints the private state after every call for    *)
(* the drift comparison with verif_snapshot() of the real reader.            *)
EXTENDS ReaderA

GrowToL(c, limit) == IF c * 2 <= limit THEN c * 2 ELSE 0
B0(b, i) == b[i + 1]

\* ---- the reader's fill_buf(): fill to capacity (or to the end of the input x). The s.failAt-th source
\*      operation (fills and real seeks are counted in s.nsrc) fails: the buffer is discarded and the
\*      reader is Finished until the next seek (commit "reading on after an I/O error ...")
FillM(x, s) ==
  IF s.nsrc + 1 = s.failAt
  THEN \* (the source may have delivered part of the data before it failed: s.partial; the reader discards
       \* the buffer either way)
       [s EXCEPT !.nsrc = @ + 1, !.ioerr = TRUE, !.st = "Finished", !.buf = <<>>, !.lastfill = 0,
                 !.src = IF s.partial THEN @ + ((IF s.cap - Len(s.buf) < Len(x) - s.src THEN s.cap - Len(s.buf) ELSE Len(x) - s.src) \div 2) ELSE @,
                 !.ios = Append(@, [t |-> "r", a |-> s.cap - Len(s.buf), g |-> 0, e |-> "other"])]
  ELSE LET n == IF s.cap - Len(s.buf) < Len(x) - s.src THEN s.cap - Len(s.buf) ELSE Len(x) - s.src
       IN [s EXCEPT !.buf = @ \o SubSeq(x, s.src + 1, s.src + n), !.src = @ + n, !.lastfill = n, !.nsrc = @ + 1,
                    !.ios = Append(@, [t |-> "r", a |-> s.cap - Len(s.buf), g |-> n, e |-> ""])]
IoRes == [k |-> "io", kind |-> "other", msg |-> <<>>]

\* ---- _search(): scan for the LF that is followed by '>' from search_pos on
SearchInM(b, sp, sq) ==
  LET P == {p \in sp..(Len(b) - 1) : b[p + 1] = LF}
      T == {p \in P : p + 1 = Len(b) \/ b[p + 2] = GT}
  IN IF T = {} THEN [found |-> FALSE, sq |-> sq \o SetToSortSeq(P, <), sp |-> Len(b)]
     ELSE LET t == Min(T) IN
          IF t + 1 = Len(b)
          THEN [found |-> FALSE, sq |-> sq \o SetToSortSeq({p \in P : p < t}, <), sp |-> t]
          ELSE [found |-> TRUE, sq |-> sq \o SetToSortSeq({p \in P : p <= t}, <), sp |-> t + 1]
\* search(): [ok, s]; sets Finished at the end of input, Incomplete when the buffer is exhausted
SearchM(s) ==
  LET r == SearchInM(s.buf, s.spos, s.seqpos) IN
  IF r.found THEN [ok |-> TRUE, s |-> [s EXCEPT !.seqpos = r.sq, !.spos = r.sp]]
  ELSE IF Len(s.buf) < s.cap THEN [ok |-> TRUE, s |-> [s EXCEPT !.st = "Finished", !.seqpos = Append(r.sq, r.sp), !.spos = r.sp]]
  ELSE [ok |-> FALSE, s |-> [s EXCEPT !.st = "Incomplete", !.seqpos = r.sq, !.spos = r.sp]]

\* ---- resume_incomplete_search(make_room): [err, s]
RECURSIVE ResumeM(_, _, _, _)
ResumeM(x, limit, s, makeRoom) ==
  LET s1 == IF ~makeRoom \/ s.start = 0
            THEN (IF GrowToL(s.cap, limit) = 0
                  THEN [s EXCEPT !.limit = TRUE, !.grows = Append(@, [c |-> s.cap, a |-> 0, p |-> [k |-> "dmax", a |-> limit, b |-> 0]])]
                  ELSE [s EXCEPT !.grows = Append(@, [c |-> s.cap, a |-> GrowToL(s.cap, limit), p |-> [k |-> "dmax", a |-> limit, b |-> 0]]), !.cap = GrowToL(s.cap, limit)])
            ELSE LET k == s.start IN
                 [s EXCEPT !.buf = SubSeq(@, k + 1, Len(@)), !.start = 0, !.spos = @ - k, !.seqpos = [i \in 1..Len(@) |-> @[i] - k]]
  IN IF s1.limit THEN [err |-> "buffer_limit", s |-> [s1 EXCEPT !.limit = FALSE]]
     ELSE LET f == FillM(x, s1) IN
          IF f.ioerr THEN [err |-> "io", s |-> f]
          ELSE LET r == SearchM(f) IN
               IF r.ok THEN [err |-> "", s |-> r.s] ELSE ResumeM(x, limit, r.s, makeRoom)

\* ---- first_byte(): skip blank lines; [found, lnum, pos, byte, s]
RECURSIVE FirstByteM(_, _, _)
FirstByteM(x, s, lnum) ==
  LET s1 == FillM(x, s) IN
  IF s1.ioerr \/ s1.lastfill = 0 THEN [found |-> FALSE, lnum |-> lnum, pos |-> 0, byte |-> 0, s |-> s1]
  ELSE LET b == s1.buf
           segs == SplitLF(b)                       \* split(b'\n'): incl. the segment after the last LF
           nb == {k \in 1..Len(segs) : segs[k] # <<>> /\ segs[k] # <<CR>>}
           off(k) == Len(FlattenSeq([i \in 1..(k - 1) |-> Append(segs[i], LF)]))
       IN IF nb # {} THEN LET f == Min(nb) IN [found |-> TRUE, lnum |-> lnum + f, pos |-> off(f), byte |-> segs[f][1], s |-> s1]
          ELSE LET keep == Len(segs[Len(segs)])
                   consumed == Len(b) - keep
               IN FirstByteM(x, [s1 EXCEPT !.buf = SubSeq(b, consumed + 1, Len(b)), !.pbyte = @ + consumed], lnum + Len(segs) - 1)
\* init(): [res, s] with res in {"ok", "none", "invalid_start"}
InitM(x, s) ==
  LET fb == FirstByteM(x, s, 0) IN
  IF fb.s.ioerr THEN [res |-> "io", s |-> fb.s, line |-> 0, found |-> 0]
  ELSE IF ~fb.found THEN [res |-> "none", s |-> [fb.s EXCEPT !.st = "Finished"], line |-> 0, found |-> 0]
  ELSE IF fb.byte = GT
  THEN [res |-> "ok", s |-> [fb.s EXCEPT !.start = fb.pos, !.pbyte = @ + fb.pos, !.pline = fb.lnum, !.spos = fb.pos + 1], line |-> 0, found |-> 0]
  ELSE [res |-> "invalid_start", s |-> [fb.s EXCEPT !.st = "Finished"], line |-> fb.lnum, found |-> fb.byte]

IncrementM(s) == [s EXCEPT !.pline = @ + Len(s.seqpos), !.pbyte = @ + (s.spos - s.start), !.start = s.spos, !.seqpos = <<>>]

\* ---- views
HeadM(b, st, sq) == TrimCR(Sl(b, st + 1, sq[1]))
LinesM(b, sq) == [k \in 1..(Len(sq) - 1) |-> TrimCR(Sl(b, sq[k] + 1, sq[k + 1]))]
RecM(b, st, sq) == [k |-> "rec", head |-> HeadM(b, st, sq), lines |-> LinesM(b, sq), qual |-> <<>>]
PosM(s) == IF s.seqpos = <<>> THEN <<>> ELSE <<s.pline, s.pbyte>>
ErrM(k, line, found) == [k |-> k, line |-> line, found |-> found, seq |-> 0, qual |-> 0, id |-> <<>>,
                         msg |-> (Dec(line) \o <<32, found, 32>>)]

\* ---- next(): [res, s]
NextM(x, limit, s0) ==
  LET s == [s0 EXCEPT !.grows = <<>>, !.ios = <<>>, !.ioerr = FALSE] IN
  IF s.st = "Finished" THEN [res |-> [k |-> "none"], s |-> s]
  ELSE
  LET pre == CASE s.st = "New" -> LET i == InitM(x, s) IN
                                  IF i.res = "ok" THEN [stop |-> FALSE, res |-> [k |-> "none"], s |-> [i.s EXCEPT !.st = "Parsing"]]
                                  ELSE IF i.res = "none" THEN [stop |-> TRUE, res |-> [k |-> "none"], s |-> i.s]
                                  ELSE IF i.res = "io" THEN [stop |-> TRUE, res |-> IoRes, s |-> i.s]
                                  ELSE [stop |-> TRUE, res |-> ErrM("invalid_start", i.line, i.found), s |-> i.s]
               [] s.st = "Positioned" -> [stop |-> FALSE, res |-> [k |-> "none"], s |-> [s EXCEPT !.st = "Parsing"]]
               [] s.st = "Parsing" -> [stop |-> FALSE, res |-> [k |-> "none"], s |-> IncrementM(s)]
               [] OTHER -> [stop |-> FALSE, res |-> [k |-> "none"], s |-> s]       \* Incomplete
  IN IF pre.stop THEN [res |-> pre.res, s |-> pre.s]
     ELSE LET s1 == IF pre.s.st # "Incomplete" THEN SearchM(pre.s).s ELSE pre.s IN
          IF s1.st = "Incomplete"
          THEN LET r == ResumeM(x, limit, s1, TRUE) IN
               IF r.err # "" THEN [res |-> (IF r.err = "io" THEN IoRes ELSE [k |-> r.err, msg |-> <<>>]), s |-> r.s]
               ELSE LET s2 == IF r.s.st # "Finished" THEN [r.s EXCEPT !.st = "Parsing"] ELSE r.s IN
                    [res |-> RecM(s2.buf, s2.start, s2.seqpos), s |-> s2]
          ELSE [res |-> RecM(s1.buf, s1.start, s1.seqpos), s |-> s1]

\* ---- fill_record_set(rset, n) (n = 0: no exact count): the loop as a recursion over
\*      (reader state, positions collected, is_new); returns [res, s, rset]
RECURSIVE SetLoopM(_, _, _, _, _, _)
SetLoopM(x, limit, s, pos, isNew, n) ==
  IF s.st = "Finished" THEN [err |-> "", s |-> s, pos |-> pos]
  ELSE
  IF s.st = "Incomplete"
  THEN LET r == ResumeM(x, limit, s, isNew) IN
       IF r.err # "" THEN [err |-> r.err, s |-> r.s, pos |-> pos]
       ELSE LET s1 == IF r.s.st # "Finished" THEN [r.s EXCEPT !.st = "Positioned"] ELSE r.s
                pos1 == Append(pos, [start |-> s1.start, seqpos |-> s1.seqpos])
                s2 == IncrementM(s1)
            IN IF n > 0 /\ Len(pos1) = n THEN [err |-> "", s |-> s2, pos |-> pos1] ELSE SetLoopM(x, limit, s2, pos1, isNew, n)
  ELSE LET r == SearchM(s) IN
       IF ~r.ok
       THEN IF pos = <<>> THEN SetLoopM(x, limit, r.s, pos, isNew, n)
            ELSE IF n > 0 /\ Len(pos) < n THEN SetLoopM(x, limit, r.s, pos, FALSE, n)
            ELSE [err |-> "", s |-> r.s, pos |-> pos]
       ELSE LET pos1 == Append(pos, [start |-> r.s.start, seqpos |-> r.s.seqpos])
                s2 == IncrementM(r.s)
            IN IF n > 0 /\ Len(pos1) = n THEN [err |-> "", s |-> s2, pos |-> pos1] ELSE SetLoopM(x, limit, s2, pos1, isNew, n)
\* rset: [buf, positions (with stale tail), npos]
FillSetM(x, limit, s0, rset, n) ==
  LET s == [s0 EXCEPT !.grows = <<>>, !.ios = <<>>, !.ioerr = FALSE]
      fail(res, s1) == [res |-> res, s |-> s1, rset |-> [rset EXCEPT !.npos = 0]]
  IN IF s.st = "Finished" THEN fail([k |-> "none"], s)
     ELSE
     LET pre == CASE s.st = "New" -> LET i == InitM(x, s) IN
                                     IF i.res = "ok" THEN [stop |-> FALSE, res |-> [k |-> "none"], s |-> [i.s EXCEPT !.st = "Positioned"]]
                                     ELSE IF i.res = "none" THEN [stop |-> TRUE, res |-> [k |-> "none"], s |-> i.s]
                                     ELSE IF i.res = "io" THEN [stop |-> TRUE, res |-> IoRes, s |-> i.s]
                                     ELSE [stop |-> TRUE, res |-> ErrM("invalid_start", i.line, i.found), s |-> i.s]
                  [] s.st = "Parsing" -> [stop |-> FALSE, res |-> [k |-> "none"], s |-> [IncrementM(s) EXCEPT !.st = "Positioned"]]
                  [] OTHER -> [stop |-> FALSE, res |-> [k |-> "none"], s |-> s]
     IN IF pre.stop THEN fail(pre.res, pre.s)
        ELSE LET r == SetLoopM(x, limit, pre.s, <<>>, TRUE, n) IN
             IF r.err # "" THEN fail((IF r.err = "io" THEN IoRes ELSE [k |-> r.err, msg |-> <<>>]), r.s)
             ELSE LET k == Len(r.pos)
                      newpos == [i \in 1..(IF k > Len(rset.positions) THEN k ELSE Len(rset.positions)) |->
                                   IF i <= k THEN r.pos[i] ELSE rset.positions[i]]
                  IN [res |-> [k |-> "ok"], s |-> r.s, rset |-> [buf |-> r.s.buf, positions |-> newpos, npos |-> k]]
SetViewM(rset) == [i \in 1..rset.npos |-> RecM(rset.buf, rset.positions[i].start, rset.positions[i].seqpos)]

\* ---- seek(line, byte): [res, s]; a failing seek of the source leaves the reader as it was
SeekM(x, s0, line, byte) ==
  LET s == [s0 EXCEPT !.grows = <<>>, !.ios = <<>>, !.ioerr = FALSE]
      p == s.start + (byte - s.pbyte)
  IN IF p >= 0 /\ p < Len(s.buf)
     THEN [res |-> [k |-> "ok"], s |-> [s EXCEPT !.pline = line, !.pbyte = byte, !.st = "Positioned", !.spos = p, !.start = p, !.seqpos = <<>>]]
     ELSE IF s.nsrc + 1 = s.failAt
     THEN [res |-> IoRes, s |-> [s EXCEPT !.nsrc = @ + 1, !.ios = Append(@, [t |-> "s", a |-> byte, g |-> 0, e |-> "other"])]]
     ELSE LET f == FillM(x, [s EXCEPT !.nsrc = @ + 1, !.ios = Append(@, [t |-> "s", a |-> byte, g |-> 0, e |-> ""]),
                                      !.src = IF byte < Len(x) THEN byte ELSE Len(x), !.buf = <<>>, !.pline = line, !.pbyte = byte,
                                      !.st = "Positioned", !.spos = 0, !.start = 0, !.seqpos = <<>>])
          IN [res |-> IF f.ioerr THEN IoRes ELSE [k |-> "ok"], s |-> f]

InitReaderM(cap, failAt, partial) == [partial |-> partial, src |-> 0, buf |-> <<>>, cap |-> cap, st |-> "New", start |-> 0, seqpos |-> <<>>, spos |-> 0,
                             pline |-> 0, pbyte |-> 0, grows |-> <<>>, limit |-> FALSE, lastfill |-> 0,
                             nsrc |-> 0, failAt |-> failAt, ios |-> <<>>, ioerr |-> FALSE]
EmptySetM == [buf |-> <<>>, positions |-> <<>>, npos |-> 0]
=============================================================================
