---------------------------- MODULE TraceReader ----------------------------
(* Trace validation of the real readers against ReaderA (DESIGN.md 4.3).    *)
(* The trace (ndjson, path in IOEnv.TRACE) holds many runs; a `reset` line  *)
(* carries the input and configuration of a run, every `call` line one      *)
(* public call with everything it returned, an `end` line closes the run.   *)
(* One TLC state per line. "Classify, don't stop": a call that breaks a     *)
(* conjunct prints a MISMATCH line naming the property ids and the rest of  *)
(* that run is skipped; validation continues with the next run.             *)
(* Runs of one pair group (same input and history, different configuration) *)
(* must show the same observation stream as the first run of the group      *)
(* (C03; with interrupted reads: C14).                                      *)
EXTENDS ReaderA, Json, IOUtils

Rec == ndJsonDeserialize(IOEnv.TRACE)

VARIABLES l,        \* next line of the trace
          fmt, chain, run, \* format, record chain and line number of the current run's reset
          flt,      \* a source fault is scheduled in this run
          s,        \* abstract reader state
          obs, ref, \* observation stream of this run / of the first run of the pair group
          reflost,  \* the first run of the group was cut short by a mismatch (its stream is a prefix)
          pp        \* property the pairing speaks about ("" = not paired)
vars == <<l, fmt, chain, run, flt, s, obs, ref, reflost, pp>>

Init == /\ l = 1 /\ fmt = "" /\ chain = <<>> /\ run = 0 /\ flt = FALSE
        /\ s = [mode |-> "lost"] /\ obs = <<>> /\ ref = <<>> /\ reflost = FALSE /\ pp = ""

Report(kind, viol, extra) ==
  PrintT(<<"MISMATCH", ToJson([kind |-> kind, line |-> l, run |-> run,
                               props |-> {v[1] : v \in viol}, why |-> {v[2] : v \in viol}, extra |-> extra])>>)

\* what a call contributes to the observation stream compared between configurations:
\* records and errors with all fields and reported positions; record-set batches flattened
\* (with the views logged, what the header accessors and the owned copies give is part of the observation: it must not depend
\* on the rendering / configuration either)
ViewObs(r) == IF "v" \notin DOMAIN r THEN <<>>
              ELSE LET v == r.v IN <<v.id, v.desc, v.id2, v.desc2, v.oid, v.odesc, v.id_str, v.desc_str, v.id_desc_str, v.ohead, v.oseq>>
Core(r) == IF r.k = "rec" THEN [k |-> "rec", head |-> r.head, lines |-> r.lines, qual |-> r.qual, vw |-> ViewObs(r)]
           ELSE IF "msg" \in DOMAIN r THEN [f \in DOMAIN r \ {"msg"} |-> r[f]] ELSE r
\* line endings change byte offsets but not line numbers (C12)
\* (and where the reader stands after the end of input is not a property of the records)
PosObs(e) == IF pp = "C12" THEN (IF e.res.k = "rec" /\ e.pos # <<>> THEN <<e.pos[1]>> ELSE <<>>) ELSE e.pos
ObsOf(e) ==
  CASE e.op \in {"next", "iter"} -> <<[r |-> Core(e.res), pos |-> PosObs(e)]>>
    [] e.op \in {"set", "exact"} ->
         IF e.res.k = "ok" THEN [i \in 1..Len(e.sets[e.slot]) |-> [r |-> Core(e.sets[e.slot][i]), pos |-> <<>>]]
         ELSE <<[r |-> Core(e.res), pos |-> <<>>]>>
    [] OTHER -> <<>>

\* C03 speaks about policies that permit the needed size: from the first buffer-limit error on, a run is outside the
\* comparison (the stream keeps that error as its last element and is compared without it)
HitLimit(o) == o # <<>> /\ o[Len(o)].r.k = "buffer_limit"
Comparable(o) == IF HitLimit(o) THEN SubSeq(o, 1, Len(o) - 1) ELSE o

Reset(e) ==
  /\ fmt' = e.fmt /\ run' = l /\ flt' = e.fault /\ pp' = e.pp
  /\ chain' = IF e.fmt = "fasta" THEN FaChain(e.input) ELSE FqChain(e.input)
  /\ s' = InitState(e.slots, e.cap)
  /\ obs' = <<>>
  /\ ref' = IF e.first THEN <<>> ELSE ref
  /\ reflost' = IF e.first THEN FALSE ELSE reflost

Call(e0) ==
  LET e == e0 @@ [fault |-> flt, pp |-> pp] IN
  IF s.mode = "lost" THEN UNCHANGED <<fmt, chain, run, flt, s, obs, ref, reflost, pp>>
  ELSE LET j == Judge(fmt, chain, s, e) IN
       /\ (j.viol # {} => Report("call", j.viol, [op |-> e.op, res |-> Core(e.res), ctx |-> s.ctx, mode |-> s.mode]))
       /\ s' = IF j.viol # {} THEN [j.s EXCEPT !.mode = "lost"] ELSE j.s
       \* the observation of a mismatching call is kept: streams are compared up to where a run was cut short
       /\ obs' = IF pp = "" \/ HitLimit(obs) THEN obs
                 ELSE LET o == ObsOf(e)
                          k == {i \in 1..Len(o) : o[i].r.k = "buffer_limit"}
                      IN obs \o (IF k = {} THEN o ELSE SubSeq(o, 1, Min(k)))
       /\ UNCHANGED <<fmt, chain, run, flt, ref, reflost, pp>>

\* `cut`: this run was cut short by a mismatch (or by a panic): only the common prefix can be compared
End(e) ==
  LET cut == s.mode = "lost" \/ HitLimit(obs)
      lost == s.mode = "lost"
      obsC == Comparable(obs)
      setsbad == ~lost /\ ~e.sets_panic /\ [u \in 1..Len(e.sets) |-> Strip(e.sets[u])] # s.sets
      panicbad == ~lost /\ e.sets_panic
      n == IF Len(obsC) < Len(ref) THEN Len(obsC) ELSE Len(ref)
      pairbad == /\ pp # "" /\ Rec[run].first = FALSE
                 /\ \/ SubSeq(obsC, 1, n) # SubSeq(ref, 1, n)
                    \/ (~cut /\ ~reflost /\ Len(obsC) # Len(ref))
      viol == (IF setsbad THEN {<<"C04", "record_set_changed_by_a_later_call">>} ELSE {})
              \cup (IF panicbad THEN {<<"C06", "iterating_record_set_panicked">>} ELSE {})
              \cup (IF pairbad THEN {<<pp, "observations_differ_between_configurations">>} ELSE {})
  IN /\ (viol # {} => Report("end", viol, [n |-> Len(obs), nref |-> Len(ref)]))
     /\ ref' = IF pp # "" /\ Rec[run].first THEN obsC ELSE ref
     /\ reflost' = IF pp # "" /\ Rec[run].first THEN cut ELSE reflost
     /\ s' = [s EXCEPT !.mode = "lost"]
     /\ UNCHANGED <<fmt, chain, run, flt, obs, pp>>

Next == /\ l <= Len(Rec)
        /\ LET e == Rec[l] IN
             CASE e.ev = "reset" -> Reset(e)
               [] e.ev = "call" -> Call(e)
               [] e.ev = "end" -> End(e)
        /\ l' = l + 1
Spec == Init /\ [][Next]_vars

\* every line must have been consumed
Done == IF TLCGet("stats").diameter - 1 = Len(Rec) THEN TRUE
        ELSE Print(<<"NOT-CONSUMED", TLCGet("stats").diameter, Len(Rec)>>, FALSE)
=============================================================================
