CONSTANTS
 FaInputs <- FaIn
 FqInputs <- FqIn
 MaxSteps = 7
 NSlots = 2
SPECIFICATION Spec
INVARIANTS NoFalseAlarm Sensitive Consequences
CHECK_DEADLOCK FALSE
