------------------------------ MODULE GenStruct ------------------------------
(* C12, spec -> impl: well-formed files are generated as STRUCTURES (record    *)
(* lists whose fields are free of CR and LF) and rendered with LF or CRLF      *)
(* line endings, with or without a terminator after the last line, and (FASTA) *)
(* with every per-line mixture of the two endings. The first rendering of a    *)
(* group is the LF version; the harness parses every rendering with the real   *)
(* readers and TraceReader demands the same records and line numbers from all  *)
(* of them. The LF version itself is judged against the format oracle.         *)
EXTENDS Bytes, Json, TLC
A == 65
Heads == {<<>>, <<97>>, <<97, 32, 98>>}
FaLineLists == UNION {[1..k -> {<<A>>, <<A, 67>>}] : k \in 0..2}
FaRecs == {[head |-> h, lines |-> ls] : h \in Heads, ls \in FaLineLists}
FaStructs == {<<r>> : r \in FaRecs} \cup {<<r1, r2>> : r1 \in FaRecs, r2 \in {r \in FaRecs : Len(r.lines) <= 1}}
FqFields == {<<<<>>, <<>>>>, <<<<A>>, <<73>>>>, <<<<A, 67>>, <<73, 43>>>>}
FqRecs == {[head |-> h, seq |-> sq[1], qual |-> sq[2]] : h \in Heads, sq \in FqFields}
FqStructs == {<<r>> : r \in FqRecs} \cup {<<r1, r2>> : r1 \in FqRecs, r2 \in FqRecs}

\* the lines of the file, without terminators
FaFileLines(st) == FlattenSeq([i \in 1..Len(st) |-> <<<<GT>> \o st[i].head>> \o st[i].lines])
FqFileLines(st) == FlattenSeq([i \in 1..Len(st) |-> <<<<AT>> \o st[i].head, st[i].seq, <<PLUS>>, st[i].qual>>])
\* crlf: set of line numbers that end in CRLF; fin: terminator after the last line
Render(ls, crlf, fin) ==
  FlattenSeq([i \in 1..Len(ls) |-> ls[i] \o (IF i < Len(ls) \/ fin THEN (IF i \in crlf THEN <<CR, LF>> ELSE <<LF>>) ELSE <<>>)])
\* (the fifth rendering: a CRLF file cut one byte short - the CR of the last terminator is there, its LF is not; the last line
\* still ends at the end of the input and its CR belongs to the line ending, not to the field)
Uniform(ls) == LET all == 1..Len(ls) IN <<Render(ls, {}, TRUE), Render(ls, {}, FALSE), Render(ls, all, TRUE), Render(ls, all, FALSE)>>
                                       \o (IF ls[Len(ls)] # <<>> THEN <<Render(ls, all, FALSE) \o <<CR>>>> ELSE <<>>)
Mixed(ls) == IF Len(ls) > 4 THEN <<>>
             ELSE SetToSeq({Render(ls, c, TRUE) : c \in SUBSET (1..Len(ls))} \cup {Render(ls, c, FALSE) : c \in SUBSET (1..Len(ls))})
\* blank lines before the first FASTA record / after the last record belong to the documented formats
Blanks(k) == [i \in 1..k |-> <<>>]
WithBlanks(ls, lead, trail) == (Blanks(lead) \o ls) \o Blanks(trail)
\* (a trailing empty line cannot drop its terminator)
UniformT(ls) == IF ls[Len(ls)] = <<>> THEN <<Render(ls, {}, TRUE), Render(ls, 1..Len(ls), TRUE)>> ELSE Uniform(ls)
ASSUME \A st \in FaStructs : PrintT(<<"GROUP", ToJson([fmt |-> "fasta", r |-> Uniform(FaFileLines(st)) \o Mixed(FaFileLines(st))])>>)
ASSUME \A st \in {s \in FaStructs : Len(s) = 1} : \A lead \in 0..3, trail \in 0..1 : lead + trail > 0 =>
          PrintT(<<"GROUP", ToJson([fmt |-> "fasta", r |-> UniformT(WithBlanks(FaFileLines(st), lead, trail))])>>)
ASSUME \A st \in {s \in FqStructs : Len(s) = 1} : \A trail \in 1..2 :
          PrintT(<<"GROUP", ToJson([fmt |-> "fastq", r |-> UniformT(WithBlanks(FqFileLines(st), 0, trail))])>>)
\* a FASTQ file whose last quality line is empty cannot drop its final terminator (the line would vanish)
FqUniform(ls) == IF ls[Len(ls)] = <<>> THEN <<Render(ls, {}, TRUE), Render(ls, 1..Len(ls), TRUE)>> ELSE Uniform(ls)
ASSUME \A st \in FqStructs : PrintT(<<"GROUP", ToJson([fmt |-> "fastq", r |-> FqUniform(FqFileLines(st))])>>)
VARIABLE dummy
Spec == dummy = 0 /\ [][UNCHANGED dummy]_dummy
=============================================================================
