--------------------------- MODULE ParallelCount ---------------------------
(* Integer abstraction of Parallel (who holds how many data sets), for any   *)
(* queue length Q >= 1, any number of workers and any input length. The      *)
(* counting invariant behind C16 / C08 - the data sets in the empty channel, *)
(* in the reader's hand, in jobs, in the result channel and in the           *)
(* consumer's hands are among the ones created, at most Q + 1 - is          *)
(* inductive; it implies that a send into either channel never finds it      *)
(* full beyond its capacity, so the recycling protocol cannot block on a     *)
(* full channel while data sets circulate. Checked with Apalache:            *)
(*   apalache-mc check --init=IndInit --inv=IndInv --length=1                *)
(*   apalache-mc check --inv=IndInv --length=0   (Init => IndInv)            *)
EXTENDS Integers
CONSTANT
  \* @type: Int;
  Q
VARIABLES
  \* @type: Int;
  nE,      \* data sets in the empty channel
  \* @type: Int;
  nR,      \* in the reader's hand (0 or 1)
  \* @type: Int;
  nJ,      \* in queued or running jobs
  \* @type: Int;
  nD,      \* in the result channel
  \* @type: Int;
  nC,      \* in the consumer's hands (current set; 2 between receive and recycle)
  \* @type: Int;
  made,    \* data sets created so far
  \* @type: Bool;
  prefilled

ConstInit == Q \in Int /\ Q >= 1
Init == nE = 0 /\ nR = 0 /\ nJ = 0 /\ nD = 0 /\ nC = 0 /\ made = 0 /\ prefilled = FALSE

\* main thread: create a set and put it into the empty channel (Q times), then create the current set
Prefill == /\ ~prefilled /\ made < Q /\ nE < Q
           /\ made' = made + 1 /\ nE' = nE + 1 /\ UNCHANGED <<nR, nJ, nD, nC, prefilled>>
MkCurrent == /\ ~prefilled /\ made = Q
             /\ made' = made + 1 /\ nC' = nC + 1 /\ prefilled' = TRUE /\ UNCHANGED <<nE, nR, nJ, nD>>
\* reader: take a set from the empty channel
RRecv == /\ nE > 0 /\ nR = 0 /\ nE' = nE - 1 /\ nR' = 1 /\ UNCHANGED <<nJ, nD, nC, made, prefilled>>
\* reader: fill and hand to the pool, or drop the set (end of input, reader error)
RExec == /\ nR = 1 /\ nR' = 0 /\ nJ' = nJ + 1 /\ UNCHANGED <<nE, nD, nC, made, prefilled>>
RDrop == /\ nR = 1 /\ nR' = 0 /\ UNCHANGED <<nE, nJ, nD, nC, made, prefilled>>
\* worker: send the result; needs room in the result channel
WSend == /\ nJ > 0 /\ nD < Q /\ nJ' = nJ - 1 /\ nD' = nD + 1 /\ UNCHANGED <<nE, nR, nC, made, prefilled>>
\* consumer: receive a result ...
CRecv == /\ prefilled /\ nD > 0 /\ nC = 1 /\ nD' = nD - 1 /\ nC' = 2 /\ UNCHANGED <<nE, nR, nJ, made, prefilled>>
\* ... and recycle the previous current set; needs room in the empty channel
CRecycle == /\ nC = 2 /\ nE < Q /\ nC' = 1 /\ nE' = nE + 1 /\ UNCHANGED <<nR, nJ, nD, made, prefilled>>
Stutter == UNCHANGED <<nE, nR, nJ, nD, nC, made, prefilled>>
Next == Prefill \/ MkCurrent \/ RRecv \/ RExec \/ RDrop \/ WSend \/ CRecv \/ CRecycle \/ Stutter

\* the inductive invariant
IndInv == /\ Q >= 1
          /\ nE >= 0 /\ nR \in {0, 1} /\ nJ >= 0 /\ nD >= 0 /\ nC \in {0, 1, 2} /\ made >= 0
          /\ nE + nR + nJ + nD + nC <= made
          /\ made <= Q + 1
          /\ (prefilled <=> made = Q + 1)
          /\ (prefilled => nC >= 1)
          /\ (~prefilled => nC = 0)
IndInit == /\ nE \in Int /\ nR \in Int /\ nJ \in Int /\ nD \in Int /\ nC \in Int /\ made \in Int /\ prefilled \in BOOLEAN
           /\ IndInv
\* consequences (C16): never more than Q+1 sets; channels within capacity; and the recycle send of the
\* consumer can never find the empty channel full (so the consumer never blocks there)
Bounded == made <= Q + 1 /\ nE <= Q /\ nD <= Q
RecycleNeverBlocks == nC = 2 => nE < Q
ResultSendEventuallyPossible == (nJ > 0 /\ nD = Q) => nC >= 1   \* a full result channel means the consumer holds a set and can receive
Safety == IndInv /\ Bounded /\ RecycleNeverBlocks
=============================================================================
