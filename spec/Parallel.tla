------------------------------ MODULE Parallel ------------------------------
(* seq_io::parallel::read_parallel_init and ParallelRecordsets::next        *)
(* (DESIGN.md 3.5): reader thread R, pool workers W1..Wn, consumer / main   *)
(* thread C, two bounded channels, recycled data sets. One action per       *)
(* blocking operation or critical section of the code. The per-record layer *)
(* of parallel_fasta/_fastq(_init) (record lists per set, recycled output   *)
(* vectors, record_data_init) is part of the same model: a data set carries *)
(* its records and its output vector.                                       *)
(*                                                                          *)
(* The configuration is state (variable cfg, constant during a behaviour),  *)
(* so that one TLC run covers every combination of thread count, queue      *)
(* length, number and sizes of sets, consumer behaviour and fault.          *)
(*   cfg.NW        worker threads          cfg.Q     queue_len              *)
(*   cfg.Sizes     sequence: number of records of the k-th set the reader   *)
(*                 yields before it reports end of input                    *)
(*   cfg.ErrAt     k > 0: the k-th fill reports an error                    *)
(*   cfg.StopAfter consumer returns after that many next() results          *)
(*   cfg.RInitFail reader_init fails                                        *)
(*   cfg.DInitFailAt j > 0: the j-th dataset_init call fails                *)
(*   cfg.RDInitFailAt j > 0: the j-th record_data_init call fails           *)
EXTENDS Naturals, Sequences, FiniteSets, TLC
CONSTANTS Configs, MaxW

VARIABLES cfg,
          emptyCh, doneCh,       \* channel contents (data set ids / result messages)
          consAlive,             \* ParallelRecordsets (empty_send, done_recv) not yet dropped
          rdrAlive,              \* reader thread not finished (holds empty_recv and its done_send)
          ds,                    \* data set id -> [fill, recs, out, werr]
          nds,                   \* dataset_init calls so far
          nrd,                   \* record_data_init calls so far
          rpc, rd, nfill, nrec,  \* reader: pc, data set in hand, fills done, records handed out
          jobq, wpc, wd,         \* pool: FIFO job queue, worker pc, worker's data set
          cpc, ci, cur, got, result,
          maxAhead               \* ghost: max of (sets filled - sets received) seen at a fill
vars == <<cfg, emptyCh, doneCh, consAlive, rdrAlive, ds, nds, nrd, rpc, rd, nfill, nrec, jobq, wpc, wd, cpc, ci, cur, got, result, maxAhead>>

W == 1..cfg.NW
NSets == Len(cfg.Sizes)
F(k) == k * 10                  \* the worker function applied to set number k
G(r) == r * 7 + 1               \* the per-record worker function applied to record number r
Jobs == Len(jobq) + Cardinality({w \in W : wpc[w] # "idle"})
DoneSenders == (IF rdrAlive THEN 1 ELSE 0) + Jobs   \* live clones of done_send
OkItems == {i \in 1..Len(got) : got[i].t = "ok"}

InitWith(c) ==
  /\ cfg = c /\ emptyCh = <<>> /\ doneCh = <<>> /\ consAlive = TRUE /\ rdrAlive = TRUE
  /\ ds = <<>> /\ nds = 0 /\ nrd = 0 /\ rpc = "init" /\ rd = 0 /\ nfill = 0 /\ nrec = 0
  /\ jobq = <<>> /\ wpc = [w \in 1..c.NW |-> "idle"] /\ wd = [w \in 1..c.NW |-> 0]
  /\ cpc = "prefill" /\ ci = 0 /\ cur = 0 /\ got = <<>> /\ result = "none" /\ maxAhead = 0

\* ------------------------------------------------------------------ reader thread
RInit == /\ rpc = "init"
         /\ rpc' = IF cfg.RInitFail THEN "exit_err" ELSE "recv"
         /\ UNCHANGED <<emptyCh, doneCh, consAlive, rdrAlive, ds, nds, nrd, rd, nfill, nrec, jobq, wpc, wd, cpc, ci, cur, got, result, maxAhead>>
\* empty_recv.recv(): blocks while the channel is empty and the consumer's sender is alive
RRecv == /\ rpc = "recv"
         /\ \/ /\ emptyCh # <<>> /\ rd' = Head(emptyCh) /\ emptyCh' = Tail(emptyCh) /\ rpc' = "fill"
            \/ /\ emptyCh = <<>> /\ ~consAlive /\ rpc' = "scope_drop" /\ UNCHANGED <<rd, emptyCh>>
         /\ UNCHANGED <<doneCh, consAlive, rdrAlive, ds, nds, nrd, nfill, nrec, jobq, wpc, wd, cpc, ci, cur, got, result, maxAhead>>
\* reader.fill_data(&mut data): end of input, error, or a filled set handed to the pool
RFill == /\ rpc = "fill"
         /\ IF nfill >= NSets /\ cfg.ErrAt # nfill + 1
            THEN /\ rpc' = "join" /\ UNCHANGED <<ds, nfill, nrec, jobq, maxAhead>>
            ELSE IF cfg.ErrAt = nfill + 1
            THEN /\ rpc' = "senderr" /\ nfill' = nfill + 1 /\ UNCHANGED <<ds, nrec, jobq, maxAhead>>
            ELSE LET n == cfg.Sizes[nfill + 1] IN
                 /\ nfill' = nfill + 1 /\ nrec' = nrec + n
                 /\ ds' = [ds EXCEPT ![rd] = [@ EXCEPT !.fill = nfill + 1, !.recs = [i \in 1..n |-> nrec + i]]]
                 /\ jobq' = Append(jobq, rd) /\ rpc' = "recv"
                 /\ maxAhead' = IF nfill + 1 - Cardinality(OkItems) > maxAhead THEN nfill + 1 - Cardinality(OkItems) ELSE maxAhead
         /\ UNCHANGED <<emptyCh, doneCh, consAlive, rdrAlive, nds, nrd, rd, wpc, wd, cpc, ci, cur, got, result>>
\* done_send.send(..).ok(): blocks while the channel is full and the receiver alive; fails silently if it is gone
RSendErr == /\ rpc = "senderr"
            /\ \/ /\ consAlive /\ Len(doneCh) < cfg.Q /\ doneCh' = Append(doneCh, [t |-> "err", d |-> 0])
               \/ /\ ~consAlive /\ UNCHANGED doneCh
            /\ rpc' = "join"
            /\ UNCHANGED <<emptyCh, consAlive, rdrAlive, ds, nds, nrd, rd, nfill, nrec, jobq, wpc, wd, cpc, ci, cur, got, result, maxAhead>>
PoolQuiet == jobq = <<>> /\ \A w \in W : wpc[w] = "idle"
RJoin == /\ rpc = "join" /\ PoolQuiet /\ rpc' = "sendend"
         /\ UNCHANGED <<emptyCh, doneCh, consAlive, rdrAlive, ds, nds, nrd, rd, nfill, nrec, jobq, wpc, wd, cpc, ci, cur, got, result, maxAhead>>
RSendEnd == /\ rpc = "sendend"
            /\ \/ /\ consAlive /\ Len(doneCh) < cfg.Q /\ doneCh' = Append(doneCh, [t |-> "end", d |-> 0])
               \/ /\ ~consAlive /\ UNCHANGED doneCh
            /\ rpc' = "scope_drop"
            /\ UNCHANGED <<emptyCh, consAlive, rdrAlive, ds, nds, nrd, rd, nfill, nrec, jobq, wpc, wd, cpc, ci, cur, got, result, maxAhead>>
\* leaving pool.scoped(): Scope::drop joins all jobs
RScopeDrop == /\ rpc = "scope_drop" /\ PoolQuiet /\ rpc' = "exit_ok"
              /\ UNCHANGED <<emptyCh, doneCh, consAlive, rdrAlive, ds, nds, nrd, rd, nfill, nrec, jobq, wpc, wd, cpc, ci, cur, got, result, maxAhead>>
\* the thread ends: empty_recv and the reader's done_send are dropped
RExit == /\ rpc \in {"exit_ok", "exit_err"} /\ rdrAlive /\ rdrAlive' = FALSE /\ emptyCh' = <<>>
         /\ UNCHANGED <<doneCh, consAlive, ds, nds, nrd, rpc, rd, nfill, nrec, jobq, wpc, wd, cpc, ci, cur, got, result, maxAhead>>
RStep == RInit \/ RRecv \/ RFill \/ RSendErr \/ RJoin \/ RSendEnd \/ RScopeDrop \/ RExit

\* ------------------------------------------------------------------ pool workers
WTake(w) == /\ wpc[w] = "idle" /\ jobq # <<>> /\ wd' = [wd EXCEPT ![w] = Head(jobq)] /\ jobq' = Tail(jobq)
            /\ wpc' = [wpc EXCEPT ![w] = "work"]
            /\ UNCHANGED <<emptyCh, doneCh, consAlive, rdrAlive, ds, nds, nrd, rpc, rd, nfill, nrec, cpc, ci, cur, got, result, maxAhead>>
\* work(&mut data): set-level output, and the per-record layer: recycled outputs are overwritten
\* in order, record_data_init (which may fail) provides the surplus
WWork(w) ==
  /\ wpc[w] = "work"
  /\ LET d == ds[wd[w]]
         n == Len(d.recs)
         have == Len(d.out)
         need == IF n > have THEN n - have ELSE 0
         failAt == IF cfg.RDInitFailAt > nrd /\ cfg.RDInitFailAt <= nrd + need THEN cfg.RDInitFailAt - nrd ELSE 0  \* which of the new inits fails
         upto == IF failAt > 0 THEN have + failAt - 1 ELSE IF n > have THEN n ELSE have
         newout == [i \in 1..upto |-> IF i <= n THEN G(d.recs[i]) ELSE d.out[i]]
     IN /\ ds' = [ds EXCEPT ![wd[w]] = [@ EXCEPT !.out = newout, !.setout = F(d.fill), !.werr = failAt > 0]]
        /\ nrd' = nrd + (IF failAt > 0 THEN failAt ELSE need)
  /\ wpc' = [wpc EXCEPT ![w] = "send"]
  /\ UNCHANGED <<emptyCh, doneCh, consAlive, rdrAlive, nds, rpc, rd, nfill, nrec, jobq, wd, cpc, ci, cur, got, result, maxAhead>>
WSend(w) == /\ wpc[w] = "send"
            /\ \/ /\ consAlive /\ Len(doneCh) < cfg.Q /\ doneCh' = Append(doneCh, [t |-> "ok", d |-> wd[w]])
               \/ /\ ~consAlive /\ UNCHANGED doneCh
            /\ wpc' = [wpc EXCEPT ![w] = "idle"]
            /\ UNCHANGED <<emptyCh, consAlive, rdrAlive, ds, nds, nrd, rpc, rd, nfill, nrec, jobq, wd, cpc, ci, cur, got, result, maxAhead>>
WStep(w) == WTake(w) \/ WWork(w) \/ WSend(w)

\* ------------------------------------------------------------------ main thread / consumer
NewDs == /\ nds' = nds + 1 /\ ds' = Append(ds, [fill |-> 0, recs |-> <<>>, out |-> <<>>, setout |-> 0, werr |-> FALSE])
\* for _ in 0..queue_len { if empty_send.send(dataset_init()?).is_err() { break } }
CPrefill == /\ cpc = "prefill"
            /\ IF ci = cfg.Q THEN /\ cpc' = "mkcur" /\ UNCHANGED <<emptyCh, ds, nds, ci, result>>
               ELSE IF cfg.DInitFailAt = nds + 1
               THEN /\ nds' = nds + 1 /\ result' = "err_dinit" /\ cpc' = "drop_early" /\ UNCHANGED <<emptyCh, ds, ci>>
               ELSE /\ NewDs /\ UNCHANGED <<cpc, result>>
                    /\ IF rdrAlive THEN emptyCh' = Append(emptyCh, nds + 1) /\ ci' = ci + 1   \* never full: Q sends into capacity Q
                       ELSE /\ UNCHANGED emptyCh /\ ci' = cfg.Q                               \* receiver gone: break
            /\ UNCHANGED <<doneCh, consAlive, rdrAlive, nrd, rpc, rd, nfill, nrec, jobq, wpc, wd, cur, got, maxAhead>>
CMkCur == /\ cpc = "mkcur"
          /\ IF cfg.DInitFailAt = nds + 1
             THEN /\ nds' = nds + 1 /\ result' = "err_dinit" /\ cpc' = "drop_early" /\ UNCHANGED <<ds, cur>>
             ELSE /\ NewDs /\ cur' = nds + 1 /\ cpc' = "func" /\ UNCHANGED result
          /\ UNCHANGED <<emptyCh, doneCh, consAlive, rdrAlive, nrd, rpc, rd, nfill, nrec, jobq, wpc, wd, ci, got, maxAhead>>
\* ParallelRecordsets::next(): done_recv.recv(); a closed channel (all senders gone) reads as end
\* the per-record functions (parallel_fasta/_fastq(_init), cfg.PerRecord) stop at the first error item
\* (`result?`) and at the first set whose worker reported a record_data_init failure (`res?`)
MustStop == /\ cfg.PerRecord /\ got # <<>>
            /\ (got[Len(got)].t = "err" \/ (got[Len(got)].t = "ok" /\ got[Len(got)].werr))
CNextRecv ==
  /\ cpc = "func" /\ Len(got) < cfg.StopAfter /\ ~MustStop
  /\ \/ /\ doneCh # <<>>
        /\ LET m == Head(doneCh) IN
           /\ doneCh' = Tail(doneCh)
           /\ CASE m.t = "ok" -> /\ got' = Append(got, [t |-> "ok", d |-> m.d, fill |-> ds[m.d].fill, setout |-> ds[m.d].setout,
                                                         recs |-> ds[m.d].recs, out |-> ds[m.d].out, werr |-> ds[m.d].werr])
                                  /\ cpc' = "recycle" /\ ci' = m.d
                [] m.t = "err" -> /\ got' = Append(got, [t |-> "err"]) /\ UNCHANGED <<cpc, ci>>
                [] m.t = "end" -> /\ got' = Append(got, [t |-> "end"]) /\ cpc' = "drop" /\ UNCHANGED ci
     \/ /\ doneCh = <<>> /\ DoneSenders = 0
        /\ got' = Append(got, [t |-> "closed"]) /\ cpc' = "drop" /\ UNCHANGED <<doneCh, ci>>
  /\ UNCHANGED <<emptyCh, consAlive, rdrAlive, ds, nds, nrd, rpc, rd, nfill, nrec, jobq, wpc, wd, cur, result, maxAhead>>
\* empty_send.send(prev).ok(): the previous current set goes back to the reader
CRecycle == /\ cpc = "recycle"
            /\ IF rdrAlive THEN /\ Len(emptyCh) < cfg.Q /\ emptyCh' = Append(emptyCh, cur) ELSE UNCHANGED emptyCh
            /\ cur' = ci /\ cpc' = "func"
            /\ UNCHANGED <<doneCh, consAlive, rdrAlive, ds, nds, nrd, rpc, rd, nfill, nrec, jobq, wpc, wd, ci, got, result, maxAhead>>
CStop == /\ cpc = "func" /\ (Len(got) >= cfg.StopAfter \/ MustStop) /\ cpc' = "drop"
         /\ UNCHANGED <<emptyCh, doneCh, consAlive, rdrAlive, ds, nds, nrd, rpc, rd, nfill, nrec, jobq, wpc, wd, ci, cur, got, result, maxAhead>>
\* drop(rsets): both channel ends of the consumer go away
CDrop == /\ cpc \in {"drop", "drop_early"} /\ consAlive' = FALSE /\ doneCh' = <<>>
         /\ cpc' = IF cpc = "drop" THEN "join" ELSE "scope_end"
         /\ UNCHANGED <<emptyCh, rdrAlive, ds, nds, nrd, rpc, rd, nfill, nrec, jobq, wpc, wd, ci, cur, got, result, maxAhead>>
\* handle.join() resp. the implicit join at the end of the crossbeam scope
CJoin == /\ cpc \in {"join", "scope_end"} /\ ~rdrAlive
         /\ result' = IF cpc = "scope_end" THEN result ELSE IF rpc = "exit_err" THEN "err_rinit"
                      ELSE IF MustStop THEN (IF got[Len(got)].t = "err" THEN "err_read" ELSE "err_rdinit") ELSE "ok"
         /\ cpc' = "done"
         /\ UNCHANGED <<emptyCh, doneCh, consAlive, rdrAlive, ds, nds, nrd, rpc, rd, nfill, nrec, jobq, wpc, wd, ci, cur, got, maxAhead>>
CStep == CPrefill \/ CMkCur \/ CNextRecv \/ CRecycle \/ CStop \/ CDrop \/ CJoin

Terminated == cpc = "done" /\ ~rdrAlive /\ PoolQuiet
Stutter == Terminated /\ UNCHANGED vars
Core == RStep \/ (\E w \in 1..MaxW : w <= cfg.NW /\ WStep(w)) \/ CStep
Next == (Core /\ UNCHANGED cfg) \/ Stutter
Fair == /\ WF_vars(RStep /\ UNCHANGED cfg)
        /\ \A w \in 1..MaxW : WF_vars(w <= cfg.NW /\ WStep(w) /\ UNCHANGED cfg)
        /\ WF_vars(CStep /\ UNCHANGED cfg)
Init == \E c \in Configs : InitWith(c)
Spec == Init /\ [][Next]_vars /\ Fair

\* ------------------------------------------------------------------ properties
\* Stated over (configuration, what the consumer received, result of the call, number of data sets
\* created, how far the reader got ahead), so that the same definitions judge the model's state
\* (invariants below) and the observations recorded from the real code (TraceParallel).
OkIdx(g) == {i \in 1..Len(g) : g[i].t = "ok"}
NSetsOf(c) == Len(c.Sizes)
DrainsP(c) == c.StopAfter > NSetsOf(c) + 1
ErrIdxP(c) == IF c.ErrAt > 0 /\ c.ErrAt <= NSetsOf(c) + 1 THEN c.ErrAt ELSE 0
\* C07
P_Paired(c, g) == \A i \in OkIdx(g) : g[i].fill > 0 /\ g[i].setout = F(g[i].fill)
P_NoDup(c, g) == \A i, j \in OkIdx(g) : i # j => g[i].fill # g[j].fill
P_AllDelivered(c, g, res) == (res = "ok" /\ ErrIdxP(c) = 0 /\ DrainsP(c) /\ c.RDInitFailAt = 0)
                               => {g[i].fill : i \in OkIdx(g)} = 1..NSetsOf(c) /\ g # <<>> /\ g[Len(g)].t = "end"
\* a call that hangs while the consumer is still owed a result (it has asked for fewer than StopAfter results and
\* fewer than the reader produces: the sets before the error or the end, plus that error or end) withholds sets from it
OwedP(c) == IF ErrIdxP(c) > 0 THEN ErrIdxP(c) ELSE NSetsOf(c) + 1
P_Served(c, g, res) == (res = "hang" /\ ~c.RInitFail /\ c.DInitFailAt = 0 /\ c.RDInitFailAt = 0) => ~(Len(g) < c.StopAfter /\ Len(g) < OwedP(c))
P_InOrder1(c, g) == c.NW = 1 => \A i, j \in OkIdx(g) : i < j => g[i].fill < g[j].fill
\* C15
P_ErrOnce(c, g) == Cardinality({i \in 1..Len(g) : g[i].t = "err"}) <= (IF ErrIdxP(c) > 0 THEN 1 ELSE 0)
P_ErrNoLater(c, g) == ErrIdxP(c) > 0 => \A i \in OkIdx(g) : g[i].fill < ErrIdxP(c)
P_ErrDrain(c, g, res) == (ErrIdxP(c) > 0 /\ DrainsP(c) /\ res = "ok" /\ c.RDInitFailAt = 0 /\ ~c.PerRecord)
                           => /\ {g[i].fill : i \in OkIdx(g)} = 1..(ErrIdxP(c) - 1)
                              /\ \E i \in 1..Len(g) : g[i].t = "err"
                              /\ g # <<>> /\ g[Len(g)].t = "end"
\* nd: the number of dataset_init calls that were made. (A reader thread that is finished before the calling thread has
\* provided all queue_len sets makes its send fail and the loop stop: fewer than queue_len + 1 sets are then created - found
\* by TLC at queue_len = 3 with an empty input - and a closure that would have failed at a later call is never called.)
P_InitFailuresSurface(c, res, nd) ==
  /\ res \notin {"panic", "hang"}
  /\ (c.RInitFail /\ res \notin {"err_dinit"} => res = "err_rinit")
  /\ (res = "err_rinit" => c.RInitFail)
  /\ (res = "err_dinit" => c.DInitFailAt > 0 /\ c.DInitFailAt <= nd)
  /\ (c.DInitFailAt > 0 /\ c.DInitFailAt <= nd /\ ~c.RInitFail => res = "err_dinit")
P_ClosedOnlyAfterInitFailure(c, g) == (\E i \in 1..Len(g) : g[i].t = "closed") => c.RInitFail
\* C16
P_BoundedSets(c, nd) == nd <= c.Q + 1
P_ReaderAhead(c, ma) == ma <= c.Q
P_RecycledOnly(c, g) == \A i \in OkIdx(g) : g[i].d \in 1..(c.Q + 1)

Paired == P_Paired(cfg, got)
NoDup == P_NoDup(cfg, got)
AllDelivered == Terminated => P_AllDelivered(cfg, got, result)
InOrder1 == P_InOrder1(cfg, got)
RecordsPaired == \A i \in OkItems : ~got[i].werr =>
                    /\ Len(got[i].out) >= Len(got[i].recs)
                    /\ \A k \in 1..Len(got[i].recs) : got[i].out[k] = G(got[i].recs[k])
RecordsInOrder == \A i \in OkItems : \A k \in 1..(Len(got[i].recs) - 1) : got[i].recs[k] < got[i].recs[k + 1]
SetsAreWhatReaderProduced == \A i \in OkItems : Len(got[i].recs) = cfg.Sizes[got[i].fill]
ErrOnce == P_ErrOnce(cfg, got)
ErrNoLater == P_ErrNoLater(cfg, got)
ErrDrain == Terminated => P_ErrDrain(cfg, got, result)
InitFailuresSurface == Terminated => P_InitFailuresSurface(cfg, result, nds)
PerRecordErrorsReturned ==
  Terminated /\ cfg.PerRecord => /\ (result = "err_read" => ErrIdxP(cfg) > 0 /\ got[Len(got)].t = "err")
                                 /\ (result = "err_rdinit" => cfg.RDInitFailAt > 0)
                                 /\ ((\E i \in 1..Len(got) : got[i].t = "err") => result \in {"err_read"})
ClosedOnlyAfterInitFailure == P_ClosedOnlyAfterInitFailure(cfg, got)
BoundedSets == P_BoundedSets(cfg, nds)
ReaderAhead == P_ReaderAhead(cfg, maxAhead)
RecycledOnly == P_RecycledOnly(cfg, got)
\* the counting abstraction ParallelCount (proved inductive for every Q with Apalache) covers this model:
\* while the consumer is alive, the data sets in the channels, in the reader's hand, in jobs and in the
\* consumer's hands are among those created
CountSum == Len(emptyCh) + (IF rpc = "fill" THEN 1 ELSE 0) + Jobs
            + Cardinality({i \in 1..Len(doneCh) : doneCh[i].t = "ok"})
            + (IF cpc = "recycle" THEN 2 ELSE IF cpc \in {"func", "drop", "join"} THEN 1 ELSE 0)
CountAbstraction == consAlive => CountSum <= Len(ds) /\ Len(ds) <= cfg.Q + 1 /\ Len(emptyCh) <= cfg.Q /\ Len(doneCh) <= cfg.Q
\* C08
Termination == <>Terminated
=============================================================================
