CONSTANTS Alphabet = {10, 13, 62, 65} MaxLen = 4 Caps = {3,4,5} GrowLimit = 64 MaxOps = 3 MaxFail = 3
SPECIFICATION Spec
INVARIANT Refines
CHECK_DEADLOCK FALSE
