---------------------------- MODULE FastqReader ----------------------------
(* Level (B): implementation-shaped model of fastq::Reader::next() over      *)
(* buffer_redux: init, increment_record, search / search_incomplete with the *)
(* four line offsets, resume_incomplete_search (end-of-input test on a       *)
(* non-full buffer, grow or make_room, refill), validate (incl. the slow     *)
(* path for differing terminators), check_end. One action per critical       *)
(* section. Slice accesses are guarded like Rust's bounds checks: an access  *)
(* out of range is the result "panic".                                       *)
(* TLC checks at every return that the result is what the record chain of    *)
(* FastqFormat (level A, with its unspecified zones) admits: content,        *)
(* position, error kind and fields, end of input; and that the buffer only   *)
(* grows when the group does not fit.                                        *)
EXTENDS FastqFormat, TLC
CONSTANTS Alphabet, MaxLen, Caps, GrowLimit, MaxCalls
VARIABLES x, src, buf, cap,
          st,                      \* New | Parsing | Finished
          inc,                     \* incomplete_pos: -1 none, 0 Head, 1 Seq, 2 Sep, 3 Qual
          p0, p1, sq, sp, ql,      \* buf_pos: pos.0, pos.1, seq, sep, qual
          pline, pbyte,            \* position
          pc, ret, ncalls, delivered, phase, growok
vars == <<x, src, buf, cap, st, inc, p0, p1, sq, sp, ql, pline, pbyte, pc, ret, ncalls, delivered, phase, growok>>

GrowTo(c) == IF c * 2 <= GrowLimit THEN c * 2 ELSE 0   \* 0 = refuse
\* find_line: offset just after the first LF at or after s; -1 if there is none
FindLine(b, s) == LET P == {i \in s..(Len(b) - 1) : b[i + 1] = LF} IN IF P = {} THEN -1 ELSE Min(P) + 1
\* search / search_incomplete from a stage with the offsets found so far
Search(b, stage, a0, s1o, s2o, s3o) ==
  LET s1 == IF stage <= 0 THEN FindLine(b, a0) ELSE s1o IN
  IF s1 = -1 THEN [inc |-> 0, sq |-> s1o, sp |-> s2o, ql |-> s3o, p1 |-> 0]
  ELSE LET s2 == IF stage <= 1 THEN FindLine(b, s1) ELSE s2o IN
  IF s2 = -1 THEN [inc |-> 1, sq |-> s1, sp |-> s2o, ql |-> s3o, p1 |-> 0]
  ELSE LET s3 == IF stage <= 2 THEN FindLine(b, s2) ELSE s3o IN
  IF s3 = -1 THEN [inc |-> 2, sq |-> s1, sp |-> s2, ql |-> s3o, p1 |-> 0]
  ELSE LET e == FindLine(b, s3) IN
  IF e = -1 THEN [inc |-> 3, sq |-> s1, sp |-> s2, ql |-> s3, p1 |-> 0]
  ELSE [inc |-> -1, sq |-> s1, sp |-> s2, ql |-> s3, p1 |-> e - 1]

\* validate(): the result of the call for a complete set of offsets
Validate(b, a0, s1, s2, s3, e1, atEnd, line, byte) ==
  IF a0 >= Len(b) \/ s2 >= Len(b) \/ s1 < a0 + 1 \/ s2 < s1 \/ e1 < s3 THEN [kind |-> "panic"]
  ELSE IF b[a0 + 1] # AT THEN [kind |-> "invalid_start", line |-> line, found |-> b[a0 + 1]]
  ELSE IF b[s2 + 1] # PLUS THEN [kind |-> "invalid_sep", line |-> line + 2, found |-> b[s2 + 1]]
  ELSE LET seqT == TrimCR(Sl(b, s1, s2 - 1))
           qualT == TrimCR(Sl(b, s3, e1))
       IN IF ((s2 - s1) # (e1 - s3 + 1) \/ atEnd) /\ Len(seqT) # Len(qualT)
          THEN [kind |-> "unequal", line |-> line, seq |-> Len(seqT), qual |-> Len(qualT)]
          ELSE [kind |-> "rec", head |-> TrimCR(Sl(b, a0 + 1, s1 - 1)), seq |-> seqT, qual |-> qualT, line |-> line, byte |-> byte]
IsErr(r) == r.kind \in {"invalid_start", "invalid_sep", "unequal", "unexpected_end", "panic"}

Init == /\ x = <<>> /\ src = 0 /\ buf = <<>> /\ cap \in Caps /\ st = "New" /\ inc = -1
        /\ p0 = 0 /\ p1 = 0 /\ sq = 0 /\ sp = 0 /\ ql = 0 /\ pline = 1 /\ pbyte = 0
        /\ pc = "build" /\ ret = [kind |-> "nil"] /\ ncalls = 0 /\ delivered = 0 /\ phase = "stream" /\ growok = TRUE
Build == /\ pc = "build" /\ Len(x) < MaxLen /\ \E b \in Alphabet : x' = Append(x, b)
         /\ UNCHANGED <<src, buf, cap, st, inc, p0, p1, sq, sp, ql, pline, pbyte, pc, ret, ncalls, delivered, phase, growok>>
Start == /\ pc = "build" /\ pc' = "idle"
         /\ UNCHANGED <<x, src, buf, cap, st, inc, p0, p1, sq, sp, ql, pline, pbyte, ret, ncalls, delivered, phase, growok>>

Ch == FqChain(x)
CurEl == Ch[IF delivered + 1 <= Len(Ch) THEN delivered + 1 ELSE Len(Ch)]

\* the search that follows the state dispatch of next(), on buffer b from record start a0
AfterSearch(b, a0, line, byte, r) ==
  /\ buf' = b /\ p0' = a0 /\ sq' = r.sq /\ sp' = r.sp /\ ql' = r.ql /\ pline' = line /\ pbyte' = byte
  /\ IF r.inc = -1
     THEN LET v == Validate(b, a0, r.sq, r.sp, r.ql, r.p1, FALSE, line, byte) IN
          /\ p1' = r.p1 /\ inc' = -1 /\ ret' = v /\ pc' = "ret"
          /\ st' = IF IsErr(v) THEN "Finished" ELSE "Parsing"
     ELSE /\ inc' = r.inc /\ pc' = "resume" /\ st' = "Parsing" /\ UNCHANGED <<p1, ret>>

CallNext ==
  /\ pc = "idle" /\ ncalls < MaxCalls /\ phase # "limit" /\ ncalls' = ncalls + 1
  /\ CASE st = "Finished" -> /\ ret' = [kind |-> "none"] /\ pc' = "ret"
                             /\ UNCHANGED <<x, src, buf, cap, st, inc, p0, p1, sq, sp, ql, pline, pbyte>>
       [] st = "New" ->      \* init(): fill_buf; nothing read = end of input
            LET n == Min({cap - Len(buf), Len(x) - src})
                b == buf \o SubSeq(x, src + 1, src + n)
            IN IF n = 0 THEN /\ st' = "Finished" /\ ret' = [kind |-> "none"] /\ pc' = "ret"
                             /\ UNCHANGED <<x, src, buf, cap, inc, p0, p1, sq, sp, ql, pline, pbyte>>
               ELSE /\ src' = src + n /\ AfterSearch(b, 0, pline, pbyte, Search(b, 0, 0, 0, 0, 0)) /\ UNCHANGED <<x, cap>>
       [] st = "Parsing" ->
            IF inc = -1
            THEN \* increment_record(), then search()
                 LET a0 == p1 + 1 IN
                 IF a0 > Len(buf) THEN /\ ret' = [kind |-> "panic"] /\ pc' = "ret" /\ UNCHANGED <<x, src, buf, cap, st, inc, p0, p1, sq, sp, ql, pline, pbyte>>
                 ELSE /\ AfterSearch(buf, a0, pline + 4, pbyte + (p1 + 1 - p0), Search(buf, 0, a0, sq, sp, ql)) /\ UNCHANGED <<x, src, cap>>
            ELSE /\ pc' = "resume" /\ UNCHANGED <<x, src, buf, cap, st, inc, p0, p1, sq, sp, ql, pline, pbyte, ret>>
  /\ UNCHANGED <<delivered, phase, growok>>

\* one iteration of the loop of resume_incomplete_search(make_room = true)
ResumeIter ==
  /\ pc = "resume"
  /\ IF Len(buf) < cap
     THEN \* end of input: check_end()
          /\ st' = "Finished" /\ pc' = "ret"
          /\ IF inc = 3
             THEN /\ p1' = Len(buf) /\ ret' = Validate(buf, p0, sq, sp, ql, Len(buf), TRUE, pline, pbyte)
             ELSE /\ UNCHANGED p1
                  /\ ret' = IF p0 > Len(buf) THEN [kind |-> "panic"]
                            ELSE IF AllBlank(Sl(buf, p0, Len(buf))) THEN [kind |-> "none"]
                            ELSE [kind |-> "unexpected_end", line |-> pline + inc]
          /\ UNCHANGED <<x, src, buf, cap, inc, p0, sq, sp, ql, pline, pbyte, growok>>
     ELSE IF p0 = 0
     THEN IF GrowTo(cap) = 0
          THEN /\ ret' = [kind |-> "buffer_limit"] /\ pc' = "ret"
               /\ UNCHANGED <<x, src, buf, cap, st, inc, p0, p1, sq, sp, ql, pline, pbyte, growok>>
          ELSE LET c == GrowTo(cap)
                   n == Min({c - Len(buf), Len(x) - src})
                   b == buf \o SubSeq(x, src + 1, src + n)
                   r == Search(b, inc, p0, sq, sp, ql)
               IN /\ cap' = c /\ src' = src + n /\ growok' = (growok /\ CurEl.len + 1 > cap)
                  /\ AfterSearch(b, p0, pline, pbyte, r) /\ UNCHANGED x
     ELSE \* make_room(): move the incomplete record to the start of the buffer
          LET k == p0
              b0 == SubSeq(buf, k + 1, Len(buf))
              n == Min({cap - Len(b0), Len(x) - src})
              b == b0 \o SubSeq(x, src + 1, src + n)
              r == Search(b, inc, 0, IF inc >= 1 THEN sq - k ELSE sq, IF inc >= 2 THEN sp - k ELSE sp, IF inc >= 3 THEN ql - k ELSE ql)
          IN /\ src' = src + n /\ AfterSearch(b, 0, pline, pbyte, r) /\ UNCHANGED <<x, cap, growok>>
  /\ UNCHANGED <<ncalls, delivered, phase>>

Return == /\ pc = "ret" /\ pc' = "idle"
          /\ delivered' = IF ret.kind = "rec" THEN delivered + 1 ELSE delivered
          /\ phase' = IF ret.kind = "buffer_limit" THEN "limit" ELSE IF ret.kind = "rec" THEN phase ELSE "over"
          /\ UNCHANGED <<x, src, buf, cap, st, inc, p0, p1, sq, sp, ql, pline, pbyte, ret, ncalls, growok>>

Next == Build \/ Start \/ CallNext \/ ResumeIter \/ Return
Spec == Init /\ [][Next]_vars

\* ---- refinement (B) => (A)
ErrMatches(r, errs) == \E d \in errs : /\ d.k = r.kind /\ r.line \in d.lines
                                       /\ (d.k \in {"invalid_start", "invalid_sep"} => r.found = d.found)
                                       /\ (d.k = "unequal" => r.seq = d.seq /\ r.qual = d.qual)
RetOK ==
  pc = "ret" =>
    IF phase = "over" THEN ret.kind = "none"
    ELSE CASE ret.kind = "rec" -> CurEl.okRec /\ ret.head = CurEl.rec.head /\ <<ret.seq>> = CurEl.rec.lines /\ ret.qual = CurEl.rec.qual
           [] ret.kind = "none" -> CurEl.okEnd
           [] ret.kind \in {"invalid_start", "invalid_sep", "unequal", "unexpected_end"} -> \E d \in CurEl.errs : d.k = ret.kind
           [] ret.kind = "buffer_limit" -> GrowTo(cap) = 0
           [] OTHER -> FALSE          \* includes "panic"
FieldsOK == pc = "ret" /\ phase = "stream" /\ ret.kind \in {"invalid_start", "invalid_sep", "unequal", "unexpected_end"}
              /\ (\E d \in CurEl.errs : d.k = ret.kind) => ErrMatches(ret, CurEl.errs)
PosOK == pc = "ret" /\ phase = "stream" /\ ret.kind = "rec" /\ CurEl.okRec => ret.line = CurEl.line /\ ret.byte = CurEl.byte
GrowOnlyWhenNeeded == growok
BufInv == Len(buf) <= cap /\ p0 <= Len(buf)
=============================================================================
