------------------------------ MODULE BufRedux ------------------------------
(* Level (B): buffer_redux::BufReader<_, StdPolicy> with the std buffer as   *)
(* seq_io uses it (pinned 1.0.2: pos, end, capacity; consume with the        *)
(* pos = end reset; make_room; reserve; read_into_buf returning 0 when the   *)
(* buffer is full) and seq_io's fill_buf loop (lib.rs), against a source     *)
(* that delivers 1..want bytes per read, reports Interrupted, or fails.      *)
(* Lemma FillRefinesAtomic: for every chunking and interrupt pattern the     *)
(* loop ends with min(free space, remaining input) bytes appended and        *)
(* Ok(that number) - so "buffer not full after fill_buf" means end of        *)
(* input, which is what the readers infer - or, if the source fails, with    *)
(* the error and a prefix appended; Interrupted never surfaces. The readers  *)
(* call fill_buf only with pos = 0 (after make_room, or on a fresh / grown   *)
(* buffer); the lemma needs that, see PosZeroNeeded.                         *)
EXTENDS Naturals, Sequences, TLC
CONSTANTS MaxCap, MaxSrc, MaxIntr
VARIABLES src,            \* bytes the source has not delivered yet (1..n, identities)
          buf, pos, cap,  \* buffer content between pos and end (end = pos + Len(buf)), capacity
          pc, init, nread, res, intr,
          src0, buf0      \* ghosts: source and buffer when fill_buf was called
vars == <<src, buf, pos, cap, pc, init, nread, res, intr, src0, buf0>>
End == pos + Len(buf)

Init == /\ cap \in 1..MaxCap /\ pos \in 0..1 /\ \E n \in 0..MaxSrc, k \in 0..MaxCap :
            /\ pos + k <= cap
            /\ buf = [i \in 1..k |-> 100 + i] /\ src = [i \in 1..n |-> i]
        /\ pc = "call" /\ init = 0 /\ nread = 0 /\ res = "none" /\ intr = 0 /\ src0 = src /\ buf0 = buf

\* let initial_size = reader.buffer().len(); let mut num_read = 0;
Call == /\ pc = "call" /\ init' = Len(buf) /\ nread' = 0 /\ pc' = "loop" /\ src0' = src /\ buf0' = buf
        /\ UNCHANGED <<src, buf, pos, cap, res, intr>>
\* while initial_size + num_read < reader.capacity() { match reader.read_into_buf() { ... } }
LoopExit == /\ pc = "loop" /\ ~(init + nread < cap) /\ pc' = "done" /\ res' = "ok"
            /\ UNCHANGED <<src, buf, pos, cap, init, nread, intr, src0, buf0>>
\* read_into_buf: reads into the free space after `end`; Ok(0) if there is none or the source is at its end
ReadOk == /\ pc = "loop" /\ init + nread < cap
          /\ LET want == cap - End IN
             IF want = 0 \/ src = <<>>
             THEN /\ pc' = "done" /\ res' = "ok" /\ UNCHANGED <<src, buf, nread>>          \* Ok(0) => break
             ELSE \E k \in 1..(IF want < Len(src) THEN want ELSE Len(src)) :
                    /\ buf' = buf \o SubSeq(src, 1, k) /\ src' = SubSeq(src, k + 1, Len(src))
                    /\ nread' = nread + k /\ UNCHANGED <<pc, res>>
          /\ UNCHANGED <<pos, cap, init, intr, src0, buf0>>
\* Err(e) if e.kind() == Interrupted => {}   (retry)
ReadIntr == /\ pc = "loop" /\ init + nread < cap /\ intr < MaxIntr /\ intr' = intr + 1
            /\ UNCHANGED <<src, buf, pos, cap, pc, init, nread, res, src0, buf0>>
\* Err(e) => return Err(e)
ReadErr == /\ pc = "loop" /\ init + nread < cap /\ pc' = "done" /\ res' = "err"
           /\ UNCHANGED <<src, buf, pos, cap, init, nread, intr, src0, buf0>>
Next == Call \/ LoopExit \/ ReadOk \/ ReadIntr \/ ReadErr
Spec == Init /\ [][Next]_vars /\ WF_vars(Call \/ LoopExit \/ ReadOk \/ ReadErr)

Min2(a, b) == IF a < b THEN a ELSE b
Appended == SubSeq(buf, Len(buf0) + 1, Len(buf))
FillRefinesAtomic ==
  pc = "done" /\ pos = 0 =>
     /\ buf0 \o Appended = buf /\ Appended \o src = src0                  \* nothing lost, duplicated or reordered
     /\ res = "ok" => /\ Len(Appended) = Min2(cap - Len(buf0), Len(src0))
                      /\ nread = Len(Appended)
                      /\ (Len(buf) < cap => src = <<>>)                    \* not full => end of input
     /\ res = "err" => Len(Appended) <= Min2(cap - Len(buf0), Len(src0))
\* with pos > 0 the loop condition counts free space that read_into_buf cannot use: the buffer can stay
\* "not full" although input remains - the readers therefore only fill at pos = 0
PosZeroNeeded == pc = "done" /\ res = "ok" /\ Len(buf) < cap => (src = <<>> \/ pos > 0)
Terminates == <>(pc = "done")
=============================================================================
