CONSTANTS Alphabet = {10, 13, 62, 65, 32} MaxLen = 7 Caps = {3,4,5,6,7,8,9} GrowLimit = 12 MaxCalls = 6
SPECIFICATION Spec
INVARIANTS RetOK PosOK GrowOnlyWhenNeeded BufInv
CHECK_DEADLOCK FALSE
