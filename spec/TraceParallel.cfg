CONSTANTS Configs = {} MaxW = 4
SPECIFICATION TSpec
CONSTRAINT Collect
POSTCONDITION Post
CHECK_DEADLOCK FALSE
