CONSTANTS Alphabet = {10, 13, 64, 43, 65} MaxLen = 7 Caps = {3,4,6,8} GrowLimit = 64 MaxCalls = 3
SPECIFICATION Spec
INVARIANTS RetOK FieldsOK PosOK GrowOnlyWhenNeeded BufInv
CHECK_DEADLOCK FALSE
