CONSTANTS Alphabet = {10, 13, 64, 43, 65} MaxLen = 9 Caps = {3,4,5,6,7,8,9,10} GrowLimit = 20 MaxCalls = 5
SPECIFICATION Spec
INVARIANTS RetOK FieldsOK PosOK GrowOnlyWhenNeeded BufInv
CHECK_DEADLOCK FALSE
