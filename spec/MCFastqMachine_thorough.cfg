CONSTANTS Alphabet = {10, 13, 64, 43} MaxLen = 7 Caps = {3,4,6,9} GrowLimit = 16 MaxOps = 3 MaxFail = 2
SPECIFICATION Spec
INVARIANT Refines
CHECK_DEADLOCK FALSE
