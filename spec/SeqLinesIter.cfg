CONSTANTS MaxN = 5 MaxSteps = 7 MaxK = 3
SPECIFICATION Spec
INVARIANTS ReturnsWhatIsDue LenIsRemaining EachItemOnce FrontOrder BackOrder EndsMeet EndOnlyWhenEmpty AllConsumed
PROPERTY Fused
CHECK_DEADLOCK FALSE
