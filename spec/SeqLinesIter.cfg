CONSTANTS MaxN = 5 MaxSteps = 8
SPECIFICATION Spec
INVARIANTS LenIsRemaining EachItemOnce FrontOrder BackOrder EndsMeet EndOnlyWhenEmpty AllYielded
PROPERTY Fused
CHECK_DEADLOCK FALSE
