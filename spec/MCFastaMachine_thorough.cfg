CONSTANTS Alphabet = {10, 13, 62, 65} MaxLen = 5 Caps = {3,4,5,6,7} GrowLimit = 16 MaxOps = 4 MaxFail = 3
SPECIFICATION Spec
INVARIANT Refines
CHECK_DEADLOCK FALSE
