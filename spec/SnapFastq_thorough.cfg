CONSTANTS Alphabet = {10, 64, 43, 65} MaxLen = 7 Caps = {3,5,8} GrowLimit = 64 MaxCalls = 3
SPECIFICATION SSpec
INVARIANT Emit
CHECK_DEADLOCK FALSE
