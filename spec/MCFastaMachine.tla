--------------------------- MODULE MCFastaMachine ---------------------------
(* Refinement (B) => (A) for the whole FASTA reader: every input up to       *)
(* MaxLen over Alphabet, every capacity in Caps, every history of up to      *)
(* MaxOps calls (next, record set, exact-count set 1/2 into two slots, seek  *)
(* to any position reported so far). Each call of the big-step machine       *)
(* FastaMachine is turned into the event the harness would log and judged by *)
(* ReaderA!Judge against the record chain of the input. With Emit as an      *)
(* invariant the private state after every call is printed for the drift     *)
(* comparison with the real reader's verif_snapshot().                       *)
EXTENDS FastaMachine, Json
CONSTANTS Alphabet, MaxLen, Caps, GrowLimit, MaxOps, MaxFail
VARIABLES x, cap0, fail0, part0, s, rsets, a, reported, hist, verdict
vars == <<x, cap0, fail0, part0, s, rsets, a, reported, hist, verdict>>
NSl == 2
Inputs == UNION {[1..n -> Alphabet] : n \in 0..MaxLen}
Chain == FaChain(x)
Init == /\ x \in Inputs /\ cap0 \in Caps /\ fail0 \in 0..MaxFail /\ part0 \in (IF fail0 = 0 THEN {FALSE} ELSE BOOLEAN) /\ s = InitReaderM(cap0, fail0, part0) /\ rsets = [t \in 1..NSl |-> EmptySetM]
        /\ a = InitState(NSl, cap0) /\ reported = <<>> /\ hist = <<>> /\ verdict = {}
Views == [t \in 1..NSl |-> SetViewM(rsets[t])]
Ev(op, slot, n, to, res, pos, sets2, s2) ==
  [op |-> op, slot |-> slot, n |-> n, to |-> to, res |-> res, pos |-> pos, io |-> s2.ios, grow |-> s2.grows, cap |-> s2.cap, alloc |-> -1,
   sets |-> sets2, sets_panic |-> FALSE, setcap |-> [t \in 1..NSl |-> 0], fault |-> fail0 > 0, pp |-> ""]
Step(e, s2, rsets2, name, rep) ==
  LET j == Judge("fasta", Chain, a, e) IN
  /\ verdict' = j.viol /\ a' = j.s /\ s' = s2 /\ rsets' = rsets2 /\ hist' = Append(hist, name)
  /\ reported' = IF rep # <<>> THEN Append(reported, rep) ELSE reported
  /\ UNCHANGED <<x, cap0, fail0, part0>>
Can == Len(hist) < MaxOps /\ verdict = {} /\ a.mode # "lost"
DoNext == /\ Can
          /\ LET r == NextM(x, GrowLimit, s) IN
             Step(Ev("next", 0, 0, <<>>, r.res, PosM(r.s), Views, r.s), r.s, rsets, "next", IF r.res.k = "rec" THEN PosM(r.s) ELSE <<>>)
DoSet(t, n) == /\ Can
               /\ LET r == FillSetM(x, GrowLimit, s, rsets[t], n)
                      rs2 == [rsets EXCEPT ![t] = r.rset]
                      v2 == [u \in 1..NSl |-> SetViewM(rs2[u])]
                  IN Step(Ev(IF n = 0 THEN "set" ELSE "exact", t, n, <<>>, r.res, PosM(r.s), v2, r.s), r.s, rs2,
                          IF n = 0 THEN "set" ELSE "exact" \o ToString(n), IF r.res.k = "ok" THEN PosM(r.s) ELSE <<>>)
DoSeek(i) == /\ Can /\ i <= Len(reported)
             /\ LET to == reported[i]
                    r == SeekM(x, s, to[1], to[2])
                    s2 == r.s
                IN Step(Ev("seek", 0, 0, to, r.res, PosM(s2), Views, s2), s2, rsets, "seek:" \o ToString(to[1]) \o ":" \o ToString(to[2]), <<>>)
Next == DoNext \/ (\E t \in 1..NSl, n \in 0..2 : DoSet(t, n)) \/ (\E i \in 1..3 : DoSeek(i))
Spec == Init /\ [][Next]_vars
\* (B) => (A): no call of the machine breaks a conjunct of any property
Refines == verdict = {}
StNum == CASE s.st = "New" -> 0 [] s.st = "Parsing" -> 1 [] s.st = "Incomplete" -> 2 [] s.st = "Positioned" -> 3 [] s.st = "Finished" -> 4
Emit == hist # <<>> => PrintT(<<"SNAP", ToJson([x |-> x, cap0 |-> cap0, fail |-> fail0, partial |-> part0, hist |-> hist, state |-> StNum, buf_len |-> Len(s.buf), cap |-> s.cap,
                                                start |-> s.start, search_pos |-> s.spos, seq_pos |-> s.seqpos, pos_line |-> s.pline, pos_byte |-> s.pbyte])>>)
=============================================================================
