---------------------------- MODULE TraceParObs ----------------------------
(* Observation-level validation of the public parallel entry points         *)
(* (parallel_fasta/_fastq(_init), read_parallel) driven on real readers:    *)
(* what the consumer closure saw and what the call returned, judged against *)
(* the record chain of the input (FastaFormat / FastqFormat), i.e. against  *)
(* what sequential reading delivers. One line of the trace = one run = one  *)
(* TLC state.                                                               *)
EXTENDS ReaderA, FastaFormat, FastqFormat, Json, IOUtils
Rec == ndJsonDeserialize(IOEnv.TRACE)
VARIABLE l
Init == l = 1

RecOf(c) == [head |-> c.rec.head, lines |-> c.rec.lines, qual |-> c.rec.qual]
SameRec(a, b) == a.head = b.head /\ a.lines = b.lines /\ a.qual = b.qual

\* Long runs (several thousand records, batches of several hundred): the input is not kept in the trace and the
\* chain is not evaluated; only the counters are judged. ncalls counts the consumer calls, nrec the records a
\* sequential pre-pass read (set_sizes).
RECURSIVE SumSeq(_, _)
SumSeq(q, i) == IF i > Len(q) THEN 0 ELSE q[i] + SumSeq(q, i + 1)
BigViol(r) ==
  LET res == r.result
      conj == <<
        <<"C16", "more_than_queue_len_plus_one_data_sets", r.nsetinit <= r.Q + 1>>,
        <<"C16", "record_outputs_not_reused", r.nrecinit <= (r.Q + 1) * Max({r.set_sizes[i] : i \in 1..Len(r.set_sizes)} \cup {0})>>,
        \* (parallel_fasta / _fastq / parallel_records make the per-record outputs with Default::default())
        <<"C16", "record_outputs_not_reused", "ndefault" \notin DOMAIN r \/ r.ndefault <= (r.Q + 1) * Max({r.set_sizes[i] : i \in 1..Len(r.set_sizes)} \cup {0})>>,
        \* all records of these inputs fit into the reader's buffer, which therefore never grows; a record set's buffer is a
        \* copy of it (at most twice as large through Vec's amortised growth), however long the input is
        \* (records larger than the buffer make it grow until the largest fits - by doubling, so to less than a few times its size)
        <<"C16", "record_set_memory_grows_with_the_input", "maxsetcap" \notin DOMAIN r \/
              LET recBytes(p) == IF p[1] = 1 THEN (IF r.fmt = "fastq" THEN 2 * p[2] + 12 ELSE p[2] + 6) ELSE 12
                  maxRec == Max({recBytes(r.input[i]) : i \in 1..Len(r.input)} \cup {0})
              IN r.maxsetcap <= (IF maxRec + 1 <= r.cap THEN 2 * r.cap ELSE 8 * (maxRec + r.cap))>>,
        <<"C16", "reader_ahead_of_consumer", "lead" \notin DOMAIN r \/ r.lead <= r.Q>>,
        <<"C07", "not_every_record_delivered", res.k # "none" \/ r.ncalls = SumSeq(r.set_sizes, 1)>>,
        <<"C07", "output_not_computed_for_this_record", r.nbad = 0>>,
        <<"C15", "panic", res.k # "panic">>,
        <<"C08", "call_did_not_return", res.k \notin {"hang", "panic"}>>,
        <<"C08", "job_still_processing_after_return", res.k \in {"hang", "panic"} \/ r.jobs_started = r.jobs_finished>>,
        <<"C08", "thread_active_after_return", res.k \in {"hang", "panic"} \/ r.late_events = 0>>
      >>
  IN {<<conj[i][1], conj[i][2]>> : i \in {i \in 1..Len(conj) : ~conj[i][3]}}

\* A reader with a history ("pre" records were read from it one by one before it was handed to the parallel function, the
\* last attempt possibly refused with BufferLimit and followed by set_policy): the parallel function continues where the
\* reader stands - what it has to deliver is the rest of the chain.
SmallViol(r) ==
  LET full == IF r.fmt = "fasta" THEN FaChain(r.input) ELSE FqChain(r.input)
      pre == IF "pre" \in DOMAIN r THEN r.pre ELSE 0
      chain == IF pre > 0 THEN SubSeq(full, pre + 1, Len(full)) ELSE full
      N == Len(chain)
      \* records sequential reading delivers before anything else happens
      K == Max({k \in 0..N : \A i \in 1..k : chain[i].okRec /\ chain[i].errs = {}})
      calls == r.calls
      n == Len(calls)
      res == r.result
      isInit == r.api = "parallel_init"
      drains == r.stop_after = 0
      Count(sq, x) == Cardinality({i \in 1..Len(sq) : SameRec(sq[i], x)})
      callRecs == [i \in 1..n |-> RecOf(calls[i])]
      chainRecs == [i \in 1..N |-> chain[i].rec]
      okIdx == {i \in 1..N : chain[i].okRec}
      genuine == \A i \in 1..n : \E j \in okIdx : SameRec(callRecs[i], chainRecs[j])
      atMostOnce == \A i \in 1..n : Count(callRecs, callRecs[i]) <= Cardinality({j \in okIdx : SameRec(chainRecs[j], callRecs[i])})
      paired == \A i \in 1..n : calls[i].out.head = calls[i].rec.head /\ calls[i].out.n = calls[i].rawlen /\ ~calls[i].out.stale
      \* the next chain element after the plain records: end, or the (possibly zone) error
      tail == chain[IF K < N THEN K + 1 ELSE N]
      mustFail == ~tail.okRec /\ tail.errs # {} /\ ~tail.okEnd
      anyInitFault == r.rinit_fail \/ r.recinit_fail_at > 0 \/ r.setinit_fail_at > 0
      allDelivered == n = K /\ \A j \in 1..K : Count(callRecs, chainRecs[j]) = Cardinality({i \in 1..K : SameRec(chainRecs[i], chainRecs[j])})
      inOrder == \A i \in 1..n : i <= N /\ SameRec(callRecs[i], chainRecs[i])
      \* records of one set are consecutive calls and form a contiguous segment of the file. A set is a
      \* maximal run of calls with the same tag (the tag names the recycled data set; two consecutive
      \* sets never share it, because the consumer holds one while it receives the next)
      starts == {i \in 1..n : i = 1 \/ calls[i].tag # calls[i - 1].tag}
      segOK(lo) == LET hi == Min({i \in lo..n : i = n \/ calls[i + 1].tag # calls[lo].tag})
                   IN \E j \in 1..N : j + (hi - lo) <= N /\ \A k \in 0..(hi - lo) : chain[j + k].okRec /\ SameRec(callRecs[lo + k], chainRecs[j + k])
      \* Single worker, well-formed input: which set meets the f-th record_data_init call is determined by
      \* the set sizes and the cyclic reuse of the queue_len + 1 data sets, hence so is the result.
      wellFormed == \A i \in 1..N : (chain[i].okRec /\ chain[i].errs = {}) \/ (i = N /\ chain[i].okEnd /\ ~chain[i].okRec /\ chain[i].errs = {})
      sizes == r.set_sizes
      NS == Len(sizes)
      dsOf(i) == ((i - 1) % (r.Q + 1)) + 1
      RECURSIVE Sim(_, _, _)
      \* Sim(i, outlen, cum): index of the set in which the f-th initialisation call happens (0 = none)
      Sim(i, outlen, cum) ==
        IF i > NS THEN 0
        ELSE LET have == outlen[dsOf(i)]
                 need == IF sizes[i] > have THEN sizes[i] - have ELSE 0
             IN IF r.recinit_fail_at > cum /\ r.recinit_fail_at <= cum + need THEN i
                ELSE Sim(i + 1, [outlen EXCEPT ![dsOf(i)] = IF sizes[i] > have THEN sizes[i] ELSE have], cum + need)
      failSet == IF r.recinit_fail_at = 0 THEN 0 ELSE Sim(1, [d \in 1..(r.Q + 1) |-> 0], 0)
      RECURSIVE SetOfRec(_, _, _)
      SetOfRec(i, k, cum) == IF i > NS THEN 0 ELSE IF k <= cum + sizes[i] THEN i ELSE SetOfRec(i + 1, k, cum + sizes[i])
      stopSet == IF r.stop_after = 0 THEN 0 ELSE SetOfRec(1, r.stop_after, 0)
      expected == IF failSet > 0 /\ (stopSet = 0 \/ failSet <= stopSet) THEN "err_recinit"
                  ELSE IF stopSet > 0 THEN "some" ELSE "none"
      deterministic == r.NW = 1 /\ isInit /\ ~r.rinit_fail /\ r.setinit_fail_at = 0 /\ wellFormed /\ ("iofail" \notin DOMAIN r \/ r.iofail = 0)
      conj == <<
        <<"C15", "record_init_failure_not_returned_single_worker", ~deterministic \/ res.k = expected>>,
        <<"C07", "record_not_of_the_input", genuine>>,
        <<"C07", "record_delivered_more_than_once", ~genuine \/ atMostOnce>>,
        <<"C07", "output_not_computed_for_this_record", paired>>,
        <<"C07", "not_every_record_delivered", ~(res.k = "none" /\ drains /\ ~anyInitFault /\ ~mustFail /\ tail.errs = {}) \/ allDelivered>>,
        <<"C07", "waiting_consumer_never_served", ~(res.k = "hang" /\ ~anyInitFault /\ (drains \/ n < r.stop_after) /\ n < K)>>,
        <<"C07", "call_panicked_before_all_records_were_delivered", ~(res.k = "panic" /\ drains /\ ~anyInitFault /\ ~mustFail /\ tail.errs = {})>>,
        <<"C07", "single_worker_file_order", ~(r.NW = 1 /\ genuine) \/ inOrder>>,
        <<"C07", "records_of_a_set_in_file_order", ~(isInit \/ r.api = "read_parallel") \/ ~genuine \/ \A t \in starts : segOK(t)>>,
        <<"C07", "early_return_value", res.k # "some" \/ (r.stop_after > 0 /\ (r.api = "read_parallel" \/ n = r.stop_after))>>,
        <<"C15", "parse_error_differs_from_sequential_reading",
            res.k \notin FormatErr \/ \E j \in 1..N : (\A i \in 1..(j - 1) : chain[i].okRec) /\ FieldsIn(res, chain[j].errs)>>,
        \* a source that fails while a well-formed input is read: that error, with its kind, is what the call returns
        <<"C15", "source_error_not_returned", "iofail" \notin DOMAIN r \/ r.iofail = 0 \/ ~drains \/ anyInitFault \/ ~wellFormed
                                              \/ (res.k = "io" /\ res.kind = r.iokind)>>,
        <<"C07", "result_after_the_end_marker", "again_some" \notin DOMAIN r \/ r.again_some = 0>>,
        <<"C15", "invalid_input_not_reported", ~(drains /\ mustFail /\ ~anyInitFault) \/ res.k \in FormatErr>>,
        <<"C15", "reader_init_failure_not_returned", ~(r.rinit_fail /\ (r.setinit_fail_at = 0 \/ r.setinit_fail_at > r.Q + 1)) \/ res.k = "err_rinit">>,
        \* (the failing call has to be made: a reader thread that ends early stops the provision of data sets)
        <<"C15", "data_set_init_failure_not_returned", ~(r.setinit_fail_at > 0 /\ r.setinit_fail_at <= r.nsetinit) \/ res.k = "err_setinit">>,
        <<"C15", "spurious_init_error", /\ (res.k = "err_rinit" => r.rinit_fail) /\ (res.k = "err_setinit" => r.setinit_fail_at > 0)
                                        /\ (res.k = "err_recinit" => r.recinit_fail_at > 0 /\ r.nrecinit >= r.recinit_fail_at)>>,
        <<"C15", "panic", res.k # "panic">>,
        <<"C16", "more_than_queue_len_plus_one_data_sets", ~isInit \/ r.nsetinit <= r.Q + 1>>,
        \* the reader thread has never taken more than queue_len data sets beyond those whose results the consumer received
        <<"C16", "reader_ahead_of_consumer", "lead" \notin DOMAIN r \/ r.lead <= r.Q>>,
        \* a consumer that returns early stops the reader: it has needed the first needSets batches, the reader can have
        \* filled at most queue_len more (+ 1: the hook counts a fill when it starts)
        <<"C16", "reader_kept_reading_after_the_consumer_stopped",
            LET needSets == IF r.api = "read_parallel" THEN r.stop_after ELSE stopSet IN
            ~(res.k = "some" /\ r.stop_after > 0 /\ needSets > 0 /\ wellFormed) \/ r.fills_ok <= needSets + r.Q + 1>>,
        <<"C08", "call_did_not_return", res.k \notin {"hang", "panic"}>>,
        <<"C08", "job_still_processing_after_return", res.k \in {"hang", "panic"} \/ r.jobs_started = r.jobs_finished>>,
        <<"C08", "thread_active_after_return", res.k \in {"hang", "panic"} \/ r.late_events = 0>>
      >>
  IN {<<conj[i][1], conj[i][2]>> : i \in {i \in 1..Len(conj) : ~conj[i][3]}}

\* (a history that ended in an error other than BufferLimit or at the end of the input is not judged)
HistoryOK(r) == "pre" \notin DOMAIN r \/ r.pre = 0
                \/ (r.pre > 0 /\ LET full == IF r.fmt = "fasta" THEN FaChain(r.input) ELSE FqChain(r.input)
                                  IN r.pre < Len(full) /\ \A i \in 1..r.pre : full[i].okRec /\ full[i].errs = {})
Viol(r) == IF r.big THEN BigViol(r) ELSE IF HistoryOK(r) THEN SmallViol(r) ELSE {}

Next == /\ l <= Len(Rec)
        /\ LET v == Viol(Rec[l]) IN
             v # {} => PrintT(<<"MISMATCH", ToJson([kind |-> "parapi", line |-> l, run |-> l, props |-> {x[1] : x \in v}, why |-> {x[2] : x \in v},
                                                   extra |-> [api |-> Rec[l].api, result |-> Rec[l].result, n |-> Len(Rec[l].calls)]])>>)
        /\ l' = l + 1
Spec == Init /\ [][Next]_l
Done == IF TLCGet("stats").diameter - 1 = Len(Rec) THEN TRUE
        ELSE Print(<<"NOT-CONSUMED", TLCGet("stats").diameter, Len(Rec)>>, FALSE)
=============================================================================
