------------------------------ MODULE WrapWriter ------------------------------
(* C10, model level: the line-wrapping machine of fasta::write_wrap_seq_iter   *)
(* (n_line budget, chunk loop) and write_wrap_seq (chunks(wrap)), one action   *)
(* per loop iteration. The algorithm never looks at the bytes, so the sequence *)
(* is 1..n; TLC enumerates every length n <= MaxLen, every width 1..MaxWidth   *)
(* and every chunking (including empty chunks) with at most MaxChunks chunks.  *)
EXTENDS Naturals, Sequences, SequencesExt, FiniteSets, TLC
CONSTANTS MaxLen, MaxWidth, MaxChunks
NL == 0                                  \* the line terminator written (sequence items are 1..n)
VARIABLES n, w, chunks,                  \* the request
          ci, chunk, nline, out, pc      \* loop state of write_wrap_seq_iter
vars == <<n, w, chunks, ci, chunk, nline, out, pc>>

RECURSIVE Sum(_)
Sum(s) == IF s = <<>> THEN 0 ELSE Head(s) + Sum(Tail(s))
\* chunk k of the sequence 1..n0 given the chunk lengths ls
ChunkOf(ls, k) == LET start == Sum(SubSeq(ls, 1, k - 1)) IN [i \in 1..ls[k] |-> start + i]

Init == /\ n \in 0..MaxLen /\ w \in 1..MaxWidth
        /\ \E k \in 0..MaxChunks : \E ls \in [1..k -> 0..MaxLen] :
              /\ Sum(ls) = n
              /\ chunks = [j \in 1..k |-> ChunkOf(ls, j)]
        /\ ci = 1 /\ chunk = <<>> /\ nline = 0 /\ out = <<>> /\ pc = "next_chunk"

\* for subseq in seq { let mut chunk = subseq; ...
NextChunk == /\ pc = "next_chunk"
             /\ IF ci <= Len(chunks) THEN /\ chunk' = chunks[ci] /\ ci' = ci + 1 /\ pc' = "loop" /\ UNCHANGED out
                ELSE /\ out' = Append(out, NL) /\ pc' = "done" /\ UNCHANGED <<chunk, ci>>     \* final writer.write_all(b"\n")
             /\ UNCHANGED <<n, w, chunks, nline>>
\* loop { let remaining = wrap - n_line; if chunk.len() <= remaining { write; n_line += len; break }
\*        let (line, rest) = chunk.split_at(remaining); chunk = rest; write(line); write("\n"); n_line = 0 }
Loop == /\ pc = "loop"
        /\ LET remaining == w - nline IN
           IF Len(chunk) <= remaining
           THEN /\ out' = out \o chunk /\ nline' = nline + Len(chunk) /\ pc' = "next_chunk" /\ UNCHANGED chunk
           ELSE /\ out' = (out \o SubSeq(chunk, 1, remaining)) \o <<NL>>
                /\ chunk' = SubSeq(chunk, remaining + 1, Len(chunk)) /\ nline' = 0 /\ UNCHANGED pc
        /\ UNCHANGED <<n, w, chunks, ci>>
Next == NextChunk \/ Loop
Spec == Init /\ [][Next]_vars /\ WF_vars(Next)

\* ---- what C10 demands of the finished output
Seq1n == [i \in 1..n |-> i]
\* lines of the output: split at NL (the output ends with NL)
LinesOf(o) == LET ix == SetToSortSeq({i \in 1..Len(o) : o[i] = NL}, <) IN
              [k \in 1..Len(ix) |-> SubSeq(o, IF k = 1 THEN 1 ELSE ix[k - 1] + 1, ix[k] - 1)]
\* write_wrap_seq: for chunk in seq.chunks(wrap) { write(chunk); write("\n") }
WholeOut == FlattenSeq([k \in 1..((n + w - 1) \div w) |-> Append(SubSeq(Seq1n, (k - 1) * w + 1, IF k * w < n THEN k * w ELSE n), NL)])
Done == pc = "done"
RoundTrip == Done => FlattenSeq(LinesOf(out)) = Seq1n /\ out[Len(out)] = NL
WidthOK == Done => LET L == LinesOf(out) IN \A i \in 1..Len(L) : Len(L[i]) <= w /\ (i < Len(L) => Len(L[i]) = w)
ChunkedEqualsWhole == Done /\ n > 0 => out = WholeOut
BudgetInvariant == nline <= w
Terminates == <>Done
=============================================================================
