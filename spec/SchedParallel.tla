--------------------------- MODULE SchedParallel ---------------------------
(* Schedule generator (DESIGN 4.4): behaviours of Parallel with the list of *)
(* steerable steps as history variable; every finished behaviour prints    *)
(* one SCHED line (configuration, schedule, predicted consumer              *)
(* observations and result) which the harness forces onto the real code.    *)
EXTENDS Parallel, Json
VARIABLES sched, fin
svars == <<vars, sched, fin>>
Log(t, a, d) == sched' = Append(sched, [t |-> t, a |-> a, d |-> d])
NoLog == UNCHANGED sched
Ones(n) == [k \in 1..n |-> 1]
SInit == /\ sched = <<>> /\ fin = FALSE
         /\ \E nw \in 1..MaxW, qq \in 1..3, n \in 0..5, e \in 0..4, st \in {0, 1, 2, 3, 9}, rf \in BOOLEAN, df \in 0..4 :
              \* failures are rarer than normal operation
              /\ (rf => e = 0 /\ df = 0)
              /\ InitWith([NW |-> nw, Q |-> qq, Sizes |-> Ones(n), ErrAt |-> e, StopAfter |-> st, RInitFail |-> rf, DInitFailAt |-> df,
                           RDInitFailAt |-> 0, PerRecord |-> FALSE])
Step ==
  \/ RInit /\ Log("R", "init", 0)
  \/ RRecv /\ Log("R", "recv", 0)
  \/ RFill /\ Log("R", "fill", rd)
  \/ RSendErr /\ Log("R", "senderr", 0)
  \/ RJoin /\ Log("R", "join", 0)
  \/ RSendEnd /\ Log("R", "sendend", 0)
  \/ (RScopeDrop \/ RExit) /\ NoLog
  \/ \E w \in 1..MaxW : w <= cfg.NW /\ WTake(w) /\ NoLog
  \/ \E w \in 1..MaxW : w <= cfg.NW /\ WWork(w) /\ Log("W", "work", wd[w])
  \/ \E w \in 1..MaxW : w <= cfg.NW /\ WSend(w) /\ Log("W", "send", wd[w])
  \/ CPrefill /\ (IF ci = cfg.Q THEN NoLog ELSE Log("C", "dsinit", nds + 1))
  \/ CMkCur /\ Log("C", "dsinit", nds + 1)
  \/ CNextRecv /\ Log("C", "recv", 0)
  \/ CRecycle /\ Log("C", "recycle", 0)
  \/ CStop /\ Log("C", "stop", 0)
  \/ CDrop /\ (IF cpc = "drop" THEN Log("C", "drop", 0) ELSE NoLog)
  \/ CJoin /\ (IF cpc = "join" /\ rpc # "exit_err" THEN Log("C", "join", 0) ELSE NoLog)
GotOut == [i \in 1..Len(got) |-> IF got[i].t = "ok" THEN [t |-> "ok", d |-> got[i].d, fill |-> got[i].fill, setout |-> got[i].setout]
                                 ELSE [t |-> got[i].t]]
Finish == /\ Terminated /\ ~fin /\ fin' = TRUE
          /\ PrintT(<<"SCHED", ToJson([cfg |-> cfg, sched |-> sched, got |-> GotOut, result |-> result, nds |-> nds])>>)
          /\ UNCHANGED <<vars, sched>>
SNext == (Step /\ UNCHANGED <<cfg, fin>>) \/ Finish
SSpec == SInit /\ [][SNext]_svars
=============================================================================
