---------------------------- MODULE SeqLinesIter ----------------------------
(* C20. (A) the contract of a double-ended exact-size iterator over n items; *)
(* (B) the shape of seq_io's SeqLines: a Zip of a slice iterator over the    *)
(* n+1 line boundaries with the same iterator skipped by one (Rust std       *)
(* semantics of Zip/Skip/slice::Iter incl. the trimming that Zip::next_back  *)
(* does), whose reported length is the length of the underlying Zip.         *)
(* TLC checks, for every n <= MaxN and every sequence of front/back steps,   *)
(* that (B) returns what (A) demands and that the contract holds.            *)
EXTENDS Naturals, Sequences, FiniteSets, TLC
CONSTANTS MaxN, MaxSteps
VARIABLES n,            \* number of sequence lines (items)
          f, b,         \* (A) items taken from the front / the back
          af, ab,       \* (B) slice iterator over boundaries 1..n+1: next index from the front, last index from the back
          bf, bb,       \* (B) the skipped iterator: items are boundaries 2..n+1
          fronts, backs, \* history: item numbers returned
          ended,        \* a step has reported the end
          last,         \* what the last step returned in (B): 0 = end
          steps
vars == <<n, f, b, af, ab, bf, bb, fronts, backs, ended, last, steps>>

\* ---- (A)
RemA == n - f - b
\* ---- (B)  a: indices af..ab of 1..n+1; bsk: indices bf..bb of 2..n+1
LenIt(lo, hi) == IF hi >= lo THEN hi - lo + 1 ELSE 0
ZipLen == IF LenIt(af, ab) < LenIt(bf, bb) THEN LenIt(af, ab) ELSE LenIt(bf, bb)
ReportedLen == ZipLen         \* SeqLines::len() = pos_iter.len(); size_hint() = (len, Some(len))

Init == /\ n \in 0..MaxN /\ f = 0 /\ b = 0 /\ af = 1 /\ ab = n + 1 /\ bf = 2 /\ bb = n + 1
        /\ fronts = <<>> /\ backs = <<>> /\ ended = FALSE /\ last = 0 /\ steps = 0

\* Zip::next: a.next() then b.next(); the pair (boundary i, boundary i+1) is line i
Next_ == /\ steps < MaxSteps /\ steps' = steps + 1
         /\ IF LenIt(af, ab) > 0 /\ LenIt(bf, bb) > 0
            THEN /\ last' = af /\ af' = af + 1 /\ bf' = bf + 1 /\ UNCHANGED <<ab, bb>>
                 /\ fronts' = Append(fronts, af) /\ UNCHANGED <<backs, ended>>
                 /\ f' = f + 1 /\ UNCHANGED b
            ELSE /\ last' = 0 /\ ended' = TRUE
                 \* a.next() is evaluated first and consumes an item even if b is exhausted
                 /\ af' = IF LenIt(af, ab) > 0 THEN af + 1 ELSE af
                 /\ UNCHANGED <<ab, bf, bb, fronts, backs, f, b>>
         /\ UNCHANGED n
\* Zip::next_back (both sides ExactSize): trim the longer one from the back, then next_back on both
NextBack == /\ steps < MaxSteps /\ steps' = steps + 1
            /\ LET la == LenIt(af, ab)  lb == LenIt(bf, bb)
                   ab1 == IF la > lb THEN ab - (la - lb) ELSE ab
                   bb1 == IF lb > la THEN bb - (lb - la) ELSE bb
               IN IF LenIt(af, ab1) > 0 /\ LenIt(bf, bb1) > 0
                  THEN /\ last' = ab1 /\ ab' = ab1 - 1 /\ bb' = bb1 - 1 /\ UNCHANGED <<af, bf>>
                       /\ backs' = Append(backs, ab1) /\ UNCHANGED <<fronts, ended>>
                       /\ b' = b + 1 /\ UNCHANGED f
                  ELSE /\ last' = 0 /\ ended' = TRUE /\ ab' = ab1 /\ bb' = bb1
                       /\ UNCHANGED <<af, bf, fronts, backs, f, b>>
            /\ UNCHANGED n
Step == Next_ \/ NextBack
Spec == Init /\ [][Step]_vars

\* ---- the contract (C20)
LenIsRemaining == ReportedLen = RemA
Range(sq) == {sq[i] : i \in 1..Len(sq)}
EachItemOnce == /\ Cardinality(Range(fronts) \cup Range(backs)) = Len(fronts) + Len(backs)
                /\ Range(fronts) \cup Range(backs) \subseteq 1..n
FrontOrder == \A i \in 1..Len(fronts) : fronts[i] = i
BackOrder == \A i \in 1..Len(backs) : backs[i] = n + 1 - i
EndsMeet == \A x \in Range(fronts), y \in Range(backs) : x < y
EndOnlyWhenEmpty == ended => RemA = 0
\* fused: once the end was reported, every further step reports the end
Fused == [][ended => last' = 0]_vars
AllYielded == ended => Len(fronts) + Len(backs) = n
=============================================================================
