---------------------------- MODULE SeqLinesIter ----------------------------
(* C20. (A) the contract of a double-ended exact-size iterator over n items; *)
(* (B) the shape of seq_io's SeqLines: a Zip of a slice iterator over the    *)
(* n+1 line boundaries with the same iterator skipped by one (Rust std       *)
(* semantics of Zip/Skip/slice::Iter incl. the trimming that Zip::next_back  *)
(* does), whose reported length is the length of the underlying Zip.         *)
(* Steps: next, next_back, nth(k), nth_back(k) - the last two as the default *)
(* methods of Iterator / DoubleEndedIterator define them (SeqLines does not  *)
(* override them): repeated next / next_back, stopping at the first end.     *)
(* TLC checks, for every n <= MaxN and every sequence of such steps, that    *)
(* (B) returns what (A) demands and that the contract holds.                 *)
EXTENDS Naturals, Sequences, FiniteSets, TLC
CONSTANTS MaxN, MaxSteps, MaxK
VARIABLES n,            \* number of sequence lines (items)
          f, b,         \* (A) items consumed from the front / the back (returned or skipped)
          z,            \* (B) [af, ab: slice iterator over boundaries 1..n+1 (next index from the front, last index from the
                        \*      back); bf, bb: the skipped iterator, whose items are boundaries 2..n+1]
          fronts, backs, \* history: item numbers returned by front / back steps
          ended,        \* a step has reported the end
          last,         \* what the last step returned in (B): 0 = end
          want,         \* what the last step had to return according to (A): 0 = end
          steps
vars == <<n, f, b, z, fronts, backs, ended, last, want, steps>>

\* ---- (A)
RemA == n - f - b
\* a step that takes k+1 items from one end: the item it has to return (0 = end) and the new consumption counts
AFront(k) == IF k + 1 <= RemA THEN [ret |-> f + k + 1, f |-> f + k + 1, b |-> b] ELSE [ret |-> 0, f |-> f + RemA, b |-> b]
ABack(k)  == IF k + 1 <= RemA THEN [ret |-> n + 1 - (b + k + 1), f |-> f, b |-> b + k + 1] ELSE [ret |-> 0, f |-> f, b |-> b + RemA]

\* ---- (B)
LenIt(lo, hi) == IF hi >= lo THEN hi - lo + 1 ELSE 0
ZipLenOf(y) == IF LenIt(y.af, y.ab) < LenIt(y.bf, y.bb) THEN LenIt(y.af, y.ab) ELSE LenIt(y.bf, y.bb)
ReportedLen == ZipLenOf(z)         \* SeqLines::len() = pos_iter.len(); size_hint() = (len, Some(len))
\* Zip::next: a.next() then b.next(); the pair (boundary i, boundary i+1) is line i.
\* a.next() is evaluated first and consumes an item even if b is exhausted
ZNext(y) == IF LenIt(y.af, y.ab) > 0 /\ LenIt(y.bf, y.bb) > 0
            THEN [z |-> [y EXCEPT !.af = @ + 1, !.bf = @ + 1], ret |-> y.af]
            ELSE [z |-> [y EXCEPT !.af = IF LenIt(y.af, y.ab) > 0 THEN @ + 1 ELSE @], ret |-> 0]
\* Zip::next_back (both sides ExactSize): trim the longer one from the back, then next_back on both
ZNextBack(y) ==
  LET la == LenIt(y.af, y.ab)  lb == LenIt(y.bf, y.bb)
      ab1 == IF la > lb THEN y.ab - (la - lb) ELSE y.ab
      bb1 == IF lb > la THEN y.bb - (lb - la) ELSE y.bb
  IN IF LenIt(y.af, ab1) > 0 /\ LenIt(y.bf, bb1) > 0
     THEN [z |-> [y EXCEPT !.ab = ab1 - 1, !.bb = bb1 - 1], ret |-> ab1]
     ELSE [z |-> [y EXCEPT !.ab = ab1, !.bb = bb1], ret |-> 0]
\* Iterator::nth / DoubleEndedIterator::nth_back (default methods)
RECURSIVE ZNth(_, _), ZNthBack(_, _)
ZNth(y, k) == LET r == ZNext(y) IN IF r.ret = 0 \/ k = 0 THEN r ELSE ZNth(r.z, k - 1)
ZNthBack(y, k) == LET r == ZNextBack(y) IN IF r.ret = 0 \/ k = 0 THEN r ELSE ZNthBack(r.z, k - 1)

Init == /\ n \in 0..MaxN /\ f = 0 /\ b = 0 /\ z = [af |-> 1, ab |-> n + 1, bf |-> 2, bb |-> n + 1]
        /\ fronts = <<>> /\ backs = <<>> /\ ended = FALSE /\ last = 0 /\ want = 0 /\ steps = 0

FrontStep(k, viaNth) ==
  /\ steps < MaxSteps /\ steps' = steps + 1
  /\ LET r == IF viaNth THEN ZNth(z, k) ELSE ZNext(z)
         a == AFront(k)
     IN /\ z' = r.z /\ last' = r.ret /\ want' = a.ret /\ f' = a.f /\ b' = a.b
        /\ fronts' = IF r.ret # 0 THEN Append(fronts, r.ret) ELSE fronts
        /\ ended' = (ended \/ r.ret = 0)
  /\ UNCHANGED <<n, backs>>
BackStep(k, viaNth) ==
  /\ steps < MaxSteps /\ steps' = steps + 1
  /\ LET r == IF viaNth THEN ZNthBack(z, k) ELSE ZNextBack(z)
         a == ABack(k)
     IN /\ z' = r.z /\ last' = r.ret /\ want' = a.ret /\ f' = a.f /\ b' = a.b
        /\ backs' = IF r.ret # 0 THEN Append(backs, r.ret) ELSE backs
        /\ ended' = (ended \/ r.ret = 0)
  /\ UNCHANGED <<n, fronts>>
Next_ == FrontStep(0, FALSE)
NextBack == BackStep(0, FALSE)
Nth == \E k \in 0..MaxK : FrontStep(k, TRUE)
NthBack == \E k \in 0..MaxK : BackStep(k, TRUE)
Step == Next_ \/ NextBack \/ Nth \/ NthBack
Spec == Init /\ [][Step]_vars

\* ---- the contract (C20)
ReturnsWhatIsDue == last = want
LenIsRemaining == ReportedLen = RemA
Range(sq) == {sq[i] : i \in 1..Len(sq)}
EachItemOnce == /\ Cardinality(Range(fronts) \cup Range(backs)) = Len(fronts) + Len(backs)
                /\ Range(fronts) \cup Range(backs) \subseteq 1..n
FrontOrder == \A i, j \in 1..Len(fronts) : i < j => fronts[i] < fronts[j]
BackOrder == \A i, j \in 1..Len(backs) : i < j => backs[i] > backs[j]
EndsMeet == \A x \in Range(fronts), y \in Range(backs) : x < y
EndOnlyWhenEmpty == ended => RemA = 0
\* fused: once the end was reported, every further step reports the end
Fused == [][ended => last' = 0]_vars
AllConsumed == ended => f + b = n
=============================================================================
