---------------------------- MODULE FastqMachine ----------------------------
(* Level (B), big-step: the whole public state machine of fastq::Reader as   *)
(* functions on its private state - next(), read_record_set(_exact)(),       *)
(* seek() with init, search / search_incomplete over the four line offsets,  *)
(* resume_incomplete_search (end-of-input test, grow or make_room, refill),  *)
(* validate_record (fast path on raw extents, slow path on trimmed lengths), *)
(* check_end, increment_record, the deferral of a format error behind the    *)
(* records already collected in a record set, and the record set itself.     *)
(* Written after the code as it stands after the fix: commits. Companion of  *)
(* FastaMachine; see there for how it is checked and bound to the code.      *)
EXTENDS ReaderA

GrowToQ(c, limit) == IF c * 2 <= limit THEN c * 2 ELSE 0
\* the reader's fill_buf(); the s.failAt-th source operation (fills and real seeks, counted in s.nsrc) fails,
\* possibly after part of the data was delivered (s.partial): the buffer is discarded, the reader Finished
FillQ(x, s) ==
  LET n == IF s.cap - Len(s.buf) < Len(x) - s.src THEN s.cap - Len(s.buf) ELSE Len(x) - s.src IN
  IF s.nsrc + 1 = s.failAt
  THEN [s EXCEPT !.nsrc = @ + 1, !.ioerr = TRUE, !.st = "Finished", !.buf = <<>>, !.lastfill = 0,
                 !.src = IF s.partial THEN @ + (n \div 2) ELSE @,
                 !.ios = Append(@, [t |-> "r", a |-> s.cap - Len(s.buf), g |-> 0, e |-> "other"])]
  ELSE [s EXCEPT !.buf = @ \o SubSeq(x, s.src + 1, s.src + n), !.src = @ + n, !.lastfill = n, !.nsrc = @ + 1,
                 !.ios = Append(@, [t |-> "r", a |-> s.cap - Len(s.buf), g |-> n, e |-> ""])]
IoResQ == [k |-> "io", kind |-> "other", msg |-> <<>>]
\* find_line: offset just after the first LF at or after start; -1 if there is none
FindLineQ(b, start) == LET P == {i \in start..(Len(b) - 1) : b[i + 1] = LF} IN IF P = {} THEN -1 ELSE Min(P) + 1
\* search (stage 0) / search_incomplete (stage = RecordPos): inc = -1 means complete
SearchQ(b, stage, a0, s1o, s2o, s3o) ==
  LET s1 == IF stage <= 0 THEN FindLineQ(b, a0) ELSE s1o IN
  IF s1 = -1 THEN [inc |-> 0, sq |-> s1o, sp |-> s2o, ql |-> s3o, p1 |-> -1]
  ELSE LET s2 == IF stage <= 1 THEN FindLineQ(b, s1) ELSE s2o IN
  IF s2 = -1 THEN [inc |-> 1, sq |-> s1, sp |-> s2o, ql |-> s3o, p1 |-> -1]
  ELSE LET s3 == IF stage <= 2 THEN FindLineQ(b, s2) ELSE s3o IN
  IF s3 = -1 THEN [inc |-> 2, sq |-> s1, sp |-> s2, ql |-> s3o, p1 |-> -1]
  ELSE LET e == FindLineQ(b, s3) IN
  IF e = -1 THEN [inc |-> 3, sq |-> s1, sp |-> s2, ql |-> s3, p1 |-> -1]
  ELSE [inc |-> -1, sq |-> s1, sp |-> s2, ql |-> s3, p1 |-> e - 1]
ApplyQ(s, r) == [s EXCEPT !.inc = r.inc, !.sq = r.sq, !.sp = r.sp, !.ql = r.ql, !.p1 = IF r.p1 >= 0 THEN r.p1 ELSE @]

HeadQ(b, s) == TrimCR(Sl(b, s.p0 + 1, s.sq - 1))
SeqQ(b, s) == TrimCR(Sl(b, s.sq, s.sp - 1))
QualQ(b, s) == TrimCR(Sl(b, s.ql, s.p1))
RecQ(b, s) == [k |-> "rec", head |-> HeadQ(b, s), lines |-> <<SeqQ(b, s)>>, qual |-> QualQ(b, s)]
\* get_error_pos(line_offset, parse_id)
ErrQ(k, s, lineOff, parseId, found, sl, qlen) ==
  LET id == IF parseId /\ s.sq - s.p0 > 1 THEN <<IdOf(HeadQ(s.buf, s))>> ELSE <<>>
      line == s.pline + lineOff
  IN [k |-> k, line |-> line, found |-> found, seq |-> sl, qual |-> qlen, id |-> id,
      msg |-> ((((Dec(line) \o <<32, found, 32>>) \o Dec(sl)) \o <<32>>) \o Dec(qlen)) \o (IF id = <<>> THEN <<>> ELSE <<32>> \o id[1])]
\* validate_record(at_end): [err, s]; err = <<>> if the record is valid
ValidateQ(s, atEnd) ==
  LET b == s.buf IN
  IF s.p0 >= Len(b) \/ s.sp >= Len(b) THEN [err |-> <<[k |-> "panic", msg |-> "index out of range"]>>, s |-> s]
  ELSE IF b[s.p0 + 1] # AT THEN [err |-> <<ErrQ("invalid_start", s, 0, FALSE, b[s.p0 + 1], 0, 0)>>, s |-> [s EXCEPT !.st = "Finished"]]
  ELSE IF b[s.sp + 1] # PLUS THEN [err |-> <<ErrQ("invalid_sep", s, 2, TRUE, b[s.sp + 1], 0, 0)>>, s |-> [s EXCEPT !.st = "Finished"]]
  ELSE IF ((s.sp - s.sq) # (s.p1 - s.ql + 1) \/ atEnd) /\ Len(SeqQ(b, s)) # Len(QualQ(b, s))
  THEN [err |-> <<ErrQ("unequal", s, 0, TRUE, 0, Len(SeqQ(b, s)), Len(QualQ(b, s)))>>, s |-> [s EXCEPT !.st = "Finished"]]
  ELSE [err |-> <<>>, s |-> s]

\* search(): [found, err, s]
DoSearchQ(s) ==
  LET r == SearchQ(s.buf, 0, s.p0, s.sq, s.sp, s.ql)
      s1 == ApplyQ(s, r)
  IN IF r.inc # -1 THEN [found |-> FALSE, err |-> <<>>, s |-> s1]
     ELSE LET v == ValidateQ(s1, FALSE) IN [found |-> TRUE, err |-> v.err, s |-> v.s]
\* check_end(pos): [found, err, s]
CheckEndQ(s, pos) ==
  IF pos = 3 THEN LET v == ValidateQ([s EXCEPT !.p1 = Len(s.buf)], TRUE) IN [found |-> TRUE, err |-> v.err, s |-> v.s]
  ELSE IF s.p0 > Len(s.buf) THEN [found |-> FALSE, err |-> <<[k |-> "panic", msg |-> "range start out of range"]>>, s |-> s]
  ELSE IF AllBlank(Sl(s.buf, s.p0, Len(s.buf))) THEN [found |-> FALSE, err |-> <<>>, s |-> s]
  ELSE [found |-> FALSE, err |-> <<ErrQ("unexpected_end", s, pos, pos > 0, 0, 0, 0)>>, s |-> s]
\* resume_incomplete_search(pos, make_room); fieldNone: the incomplete_pos field was take()n by the caller
RECURSIVE ResumeQ(_, _, _, _, _)
ResumeQ(x, limit, s, pos, makeRoom) ==
  IF Len(s.buf) < s.cap THEN CheckEndQ([s EXCEPT !.st = "Finished"], pos)
  ELSE
  LET grown == ~makeRoom \/ s.p0 = 0
      refused == grown /\ GrowToQ(s.cap, limit) = 0
      s1 == IF grown
            THEN [s EXCEPT !.grows = Append(@, [c |-> s.cap, a |-> GrowToQ(s.cap, limit), p |-> [k |-> "dmax", a |-> limit, b |-> 0]]),
                           !.cap = IF refused THEN @ ELSE GrowToQ(s.cap, limit)]
            ELSE LET k == s.p0 IN
                 [s EXCEPT !.buf = SubSeq(@, k + 1, Len(@)), !.p0 = 0,
                           !.sq = IF pos >= 1 THEN @ - k ELSE @, !.sp = IF pos >= 2 THEN @ - k ELSE @, !.ql = IF pos >= 3 THEN @ - k ELSE @]
  IN IF refused THEN [found |-> FALSE, err |-> <<[k |-> "buffer_limit", msg |-> <<>>]>>, s |-> s1]
     ELSE LET s2 == FillQ(x, s1) IN
          IF s2.ioerr THEN [found |-> FALSE, err |-> <<IoResQ>>, s |-> s2]
          ELSE LET r == SearchQ(s2.buf, pos, s2.p0, s2.sq, s2.sp, s2.ql)
                   s3 == ApplyQ(s2, r)
               IN IF r.inc # -1 THEN ResumeQ(x, limit, s3, r.inc, makeRoom)
                  ELSE LET v == ValidateQ(s3, FALSE) IN [found |-> TRUE, err |-> v.err, s |-> v.s]

IncrementQ(s) == [s EXCEPT !.pbyte = @ + (s.p1 + 1 - s.p0), !.pline = @ + 4, !.p0 = s.p1 + 1]
\* init(): fill; nothing read = end of input
InitQ(x, s) == LET s1 == FillQ(x, s) IN
               IF s1.ioerr THEN [ok |-> FALSE, io |-> TRUE, s |-> s1]
               ELSE IF s1.lastfill = 0 THEN [ok |-> FALSE, io |-> FALSE, s |-> [s1 EXCEPT !.st = "Finished"]] ELSE [ok |-> TRUE, io |-> FALSE, s |-> s1]
ResOf(r) == IF r.err # <<>> THEN r.err[1] ELSE IF r.found THEN RecQ(r.s.buf, r.s) ELSE [k |-> "none"]

\* ---- next(): [res, s]
NextQ(x, limit, s0) ==
  LET s == [s0 EXCEPT !.grows = <<>>, !.ios = <<>>, !.ioerr = FALSE] IN
  IF s.st = "Finished" THEN [res |-> [k |-> "none"], s |-> s]
  ELSE
  LET i == InitQ(x, s)
      pre == CASE s.st = "New" -> IF i.ok THEN [stop |-> FALSE, s |-> [i.s EXCEPT !.st = "Parsing"]] ELSE [stop |-> TRUE, s |-> i.s]
               [] s.st = "Positioned" -> [stop |-> FALSE, s |-> [s EXCEPT !.st = "Parsing"]]
               [] OTHER -> [stop |-> FALSE, s |-> IF s.inc = -1 THEN IncrementQ(s) ELSE s]     \* Parsing
  IN IF pre.stop THEN [res |-> IF pre.s.ioerr THEN IoResQ ELSE [k |-> "none"], s |-> pre.s]
     ELSE IF pre.s.inc = -1
     THEN LET r == DoSearchQ(pre.s) IN
          IF r.err # <<>> \/ r.found THEN [res |-> ResOf(r), s |-> r.s]
          ELSE LET r2 == ResumeQ(x, limit, r.s, r.s.inc, TRUE) IN [res |-> ResOf(r2), s |-> r2.s]
     ELSE LET r2 == ResumeQ(x, limit, pre.s, pre.s.inc, TRUE) IN [res |-> ResOf(r2), s |-> r2.s]

\* ---- fill_record_set(rset, n): loop as recursion over (state, positions, is_new)
PosOfQ(s) == [p0 |-> s.p0, p1 |-> s.p1, sq |-> s.sq, sp |-> s.sp, ql |-> s.ql]
IsFormatErr(e) == e.k \in FormatErr
RECURSIVE SetLoopQ(_, _, _, _, _, _)
SetLoopQ(x, limit, s, pos, isNew, n) ==
  IF s.st = "Finished" THEN [res |-> [k |-> "ok"], s |-> s, pos |-> pos]
  ELSE
  LET viaResume == s.inc # -1
      r == IF viaResume THEN ResumeQ(x, limit, [s EXCEPT !.inc = -1], s.inc, isNew) ELSE DoSearchQ(s)
  IN IF r.err # <<>>
     THEN \* try_or_defer!: valid records collected so far are returned first; the format error comes with the next call
          IF pos = <<>> \/ ~IsFormatErr(r.err[1]) THEN [res |-> r.err[1], s |-> r.s, pos |-> pos]
          ELSE [res |-> [k |-> "ok"], s |-> [r.s EXCEPT !.st = "Positioned"], pos |-> pos]
     ELSE IF ~r.found
     THEN IF viaResume
          THEN (IF pos = <<>> THEN [res |-> [k |-> "none"], s |-> r.s, pos |-> pos] ELSE [res |-> [k |-> "ok"], s |-> r.s, pos |-> pos])
          ELSE IF pos = <<>> THEN SetLoopQ(x, limit, r.s, pos, isNew, n)
          ELSE IF n > 0 /\ Len(pos) < n THEN SetLoopQ(x, limit, r.s, pos, FALSE, n)
          ELSE [res |-> [k |-> "ok"], s |-> r.s, pos |-> pos]
     ELSE LET pos1 == Append(pos, PosOfQ(r.s))
              s2 == IncrementQ(r.s)
          IN IF n > 0 /\ Len(pos1) = n THEN [res |-> [k |-> "ok"], s |-> s2, pos |-> pos1] ELSE SetLoopQ(x, limit, s2, pos1, isNew, n)
FillSetQ(x, limit, s0, rset, n) ==
  LET s == [s0 EXCEPT !.grows = <<>>, !.ios = <<>>, !.ioerr = FALSE]
      fail(res, s1) == [res |-> res, s |-> s1, rset |-> [rset EXCEPT !.positions = <<>>]]
  IN IF s.st = "Finished" THEN fail([k |-> "none"], s)
     ELSE
     LET i == InitQ(x, s)
         pre == CASE s.st = "New" -> IF i.ok THEN [stop |-> FALSE, s |-> [i.s EXCEPT !.st = "Positioned"]] ELSE [stop |-> TRUE, s |-> i.s]
                  [] s.st = "Parsing" -> [stop |-> FALSE, s |-> [(IF s.inc = -1 THEN IncrementQ(s) ELSE s) EXCEPT !.st = "Positioned"]]
                  [] OTHER -> [stop |-> FALSE, s |-> s]
     IN IF pre.stop THEN fail(IF pre.s.ioerr THEN IoResQ ELSE [k |-> "none"], pre.s)
        ELSE LET r == SetLoopQ(x, limit, pre.s, <<>>, TRUE, n) IN
             IF r.res.k # "ok" THEN fail(r.res, r.s)
             ELSE [res |-> r.res, s |-> r.s, rset |-> [buf |-> r.s.buf, positions |-> r.pos]]
SetViewQ(rset) == [i \in 1..Len(rset.positions) |->
                     LET p == rset.positions[i] IN RecQ(rset.buf, [p0 |-> p.p0, p1 |-> p.p1, sq |-> p.sq, sp |-> p.sp, ql |-> p.ql])]

\* ---- seek(line, byte): [res, s]; a failing seek of the source leaves the reader as it was
SeekQ(x, s0, line, byte) ==
  LET s == [s0 EXCEPT !.grows = <<>>, !.ios = <<>>, !.ioerr = FALSE]
      p == s.p0 + (byte - s.pbyte)
  IN IF p >= 0 /\ p < Len(s.buf)
     THEN [res |-> [k |-> "ok"], s |-> [s EXCEPT !.pline = line, !.pbyte = byte, !.inc = -1, !.st = "Positioned", !.p0 = p, !.p1 = 0]]
     ELSE IF s.nsrc + 1 = s.failAt
     THEN [res |-> IoResQ, s |-> [s EXCEPT !.nsrc = @ + 1, !.ios = Append(@, [t |-> "s", a |-> byte, g |-> 0, e |-> "other"])]]
     ELSE LET f == FillQ(x, [s EXCEPT !.nsrc = @ + 1, !.ios = Append(@, [t |-> "s", a |-> byte, g |-> 0, e |-> ""]),
                                      !.src = IF byte < Len(x) THEN byte ELSE Len(x), !.buf = <<>>, !.pline = line, !.pbyte = byte,
                                      !.inc = -1, !.st = "Positioned", !.p0 = 0, !.p1 = 0])
          IN [res |-> IF f.ioerr THEN IoResQ ELSE [k |-> "ok"], s |-> f]
InitReaderQ(cap, failAt, partial) == [nsrc |-> 0, failAt |-> failAt, partial |-> partial, ios |-> <<>>, ioerr |-> FALSE, src |-> 0, buf |-> <<>>, cap |-> cap, st |-> "New", inc |-> -1, p0 |-> 0, p1 |-> 0, sq |-> 0, sp |-> 0, ql |-> 0,
                     pline |-> 1, pbyte |-> 0, grows |-> <<>>, lastfill |-> 0]
EmptySetQ == [buf |-> <<>>, positions |-> <<>>]
=============================================================================
