CONSTANTS MaxLen = 7 MaxWidth = 8 MaxChunks = 6
SPECIFICATION Spec
INVARIANTS RoundTrip WidthOK ChunkedEqualsWhole BudgetInvariant
PROPERTY Terminates
CHECK_DEADLOCK FALSE
