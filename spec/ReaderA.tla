------------------------------ MODULE ReaderA ------------------------------
(* The abstract reader (DESIGN.md 3.2): a cursor over the record chain of   *)
(* the input. Judge(fmt, chain, s, e) says, for one observed public call e  *)
(* of the real reader in abstract state s, which property conjuncts the     *)
(* observation breaks (a set of <<property id, conjunct>> pairs) and what   *)
(* the abstract state is afterwards. It is silent about buffers: capacity,  *)
(* chunking and refills appear only through the sub-events the call logged  *)
(* (source calls, policy calls, allocation count).                          *)
(* Used by TraceReader (trace validation of the real code) and by           *)
(* MCReaderA (model checking of the consequences the properties state).     *)
EXTENDS Bytes, FastaFormat, FastqFormat, TLC

FormatErr == {"invalid_start", "invalid_sep", "unequal", "unexpected_end"}

\* ---------------------------------------------------------------- abstract state
\* cur: index of the chain element the next read is about; mode: stream | ended | failed |
\* limbo (after Io / BufferLimit / failed seek: only weak rules) | lost (stop judging this run);
\* lim: in limbo, index of the last record delivered; sets: what each record-set slot must show;
\* ctx: how the history so far differs from plain record-by-record reading;
\* cap: buffer capacity as far as the policy dialogue determines it (0 = unknown);
\* hwL/hwS/setcap: allocation high-water marks (C18)
InitState(nslots, cap) ==
  [cur |-> 1, mode |-> "stream", lim |-> 0, sets |-> [t \in 1..nslots |-> <<>>], ctx |-> {},
   cap |-> cap, cap0 |-> cap, eof |-> FALSE, fullfill |-> [t \in 1..nslots |-> FALSE], capAtFill |-> [t \in 1..nslots |-> -1], hwL |-> 0, hwS |-> [t \in 1..nslots |-> <<>>], setcap |-> [t \in 1..nslots |-> 0],
   nread |-> 0, lcause |-> ""]

\* ---------------------------------------------------------------- comparing records
\* a: record as logged (may carry more fields); r: record of the chain; j: compare joined lines
Eq(a, r, j) == /\ a.head = r.head /\ a.qual = r.qual
               /\ IF j THEN Concat(a.lines) = Concat(r.lines) ELSE a.lines = r.lines
Member(chain, a, j) == \E i \in 1..Len(chain) : chain[i].okRec /\ Eq(a, chain[i].rec, j)

\* error observation e against error descriptor d
KindIn(e, errs) == \E d \in errs : d.k = e.k
IdOK(id, ids) == id \in ids \/ (id # <<>> /\ \E i \in ids : i # <<>> /\ ~ValidUtf8(i[1]))
FieldsIn(e, errs) ==
  \E d \in errs : /\ d.k = e.k /\ e.line \in d.lines
                  /\ (d.k \in {"invalid_start", "invalid_sep"} => e.found = d.found)
                  /\ (d.k = "unequal" => e.seq = d.seq /\ e.qual = d.qual)
                  /\ IdOK(e.id, d.ids)
\* the human-readable message contains the values (C17)
Printable(b) == b >= 33 /\ b <= 126 /\ b # 39 /\ b # 92
MsgOK(e) ==
  /\ HasSub(e.msg, Dec(e.line))
  /\ (e.k \in {"invalid_start", "invalid_sep"} /\ Printable(e.found) => HasSub(e.msg, <<e.found>>))
  /\ (e.k = "unequal" => HasSub(e.msg, Dec(e.seq)) /\ HasSub(e.msg, Dec(e.qual)))
  /\ (e.id # <<>> /\ ValidUtf8(e.id[1]) => HasSub(e.msg, e.id[1]))

\* ---------------------------------------------------------------- C14: source errors
SrcErrs(e) == {i \in 1..Len(e.io) : e.io[i].e \notin {"", "interrupted"}}
IoViol(e) ==
  LET errs == SrcErrs(e) IN
  \* ("seek_interrupted" is how the harness names an Interrupted error raised by a seek of the source: the reader reports kind "interrupted")
  (IF e.res.k = "io" /\ (errs = {} \/ (LET k == e.io[Max(errs)].e IN IF k = "seek_interrupted" THEN "interrupted" ELSE k) # e.res.kind)
   THEN {<<"C14", "io_error_not_from_this_call_or_kind_changed">>} ELSE {})
  \cup (IF errs # {} /\ e.res.k \notin {"io", "panic", "hang"}
        THEN {<<"C14", "source_error_not_returned_by_this_call">>} ELSE {})
  \cup (IF errs # {} /\ Max(errs) # Len(e.io)
        THEN {<<"C14", "source_used_after_error_in_same_call">>} ELSE {})

\* ---------------------------------------------------------------- C09: policy dialogue
Pow23 == 8388608
PolicyAns(p, c) ==
  CASE p.k = "std" -> IF c < Pow23 THEN 2 * c ELSE c + Pow23
    [] p.k = "du" -> IF c < p.a THEN 2 * c ELSE c + p.a
    [] p.k = "dul" -> LET n == IF c < p.a THEN 2 * c ELSE c + p.a IN IF n <= p.b THEN n ELSE 0
    [] OTHER -> -1
\* does the policy, asked again and again from capacity c on as its documentation says it answers, reach a size that
\* holds `need` bytes? (bounded: the sizes at least double or grow by a fixed step)
RECURSIVE Permits(_, _, _, _)
Permits(p, c, need, fuel) ==
  IF c >= need THEN TRUE
  ELSE IF fuel = 0 THEN FALSE
  ELSE LET a == PolicyAns(p, c) IN IF a <= c THEN FALSE ELSE Permits(p, a, need, fuel - 1)
CapAfter(s, e) == LET g == e.grow
                      ok == {i \in 1..Len(g) : g[i].a > 0}
                  IN IF ok = {} THEN s.cap ELSE g[Max(ok)].a
\* strict: no error has been returned before (after an error the buffer need not be full when the
\* reader grows it, so the capacity bookkeeping below is only demanded in normal operation)
GrowViol(s, e, elemLen, needRule) ==
  LET g == e.grow
      refused == {i \in 1..Len(g) : g[i].a = 0}
      strict == s.mode \in {"stream", "ended", "failed"}
  IN (IF (e.res.k = "buffer_limit") # (refused # {}) /\ e.res.k \notin {"panic", "hang"}
      THEN {<<"C09", "buffer_limit_iff_refused">>} ELSE {})
     \cup (IF strict /\ \E i \in 1..Len(g) : g[i].c # (IF i = 1 THEN s.cap ELSE g[i - 1].a) /\ (i > 1 \/ s.cap > 0)
           THEN {<<"C09", "policy_not_given_current_capacity">>} ELSE {})
     \cup (IF strict /\ e.cap >= 0 /\ s.cap > 0 /\ e.cap # CapAfter(s, e)
           THEN {<<"C09", "capacity_not_the_policy_answer">>} ELSE {})
     \cup (IF \E i \in 1..Len(g) : PolicyAns(g[i].p, g[i].c) >= 0 /\ PolicyAns(g[i].p, g[i].c) # g[i].a
           THEN {<<"C09", "builtin_policy_arithmetic">>} ELSE {})
     \* C03 quantifies over "every growth policy that permits the needed size": a built-in policy that, by its documented
     \* arithmetic, permits the size asked for and refuses it makes the outcome of this configuration differ from the others
     \cup (IF \E i \in 1..Len(g) : PolicyAns(g[i].p, g[i].c) > 0 /\ g[i].a = 0
           THEN {<<"C03", "permitting_policy_refused">>} ELSE {})
     \* ... and so does a buffer-limit error for a record that the policy, asked from the initial capacity on, would let in
     \* (the reader has then asked it with sizes the policy never chose)
     \cup (IF needRule /\ strict /\ "polchange" \notin s.ctx /\ e.res.k = "buffer_limit" /\ s.cap0 > 0 /\ g # <<>> /\ PolicyAns(g[Len(g)].p, s.cap0) >= 0
              /\ Permits(g[Len(g)].p, s.cap0, elemLen + 1, 40)
           THEN {<<"C03", "buffer_limit_although_the_policy_permits_the_size">>, <<"C09", "buffer_limit_although_the_policy_permits_the_size">>} ELSE {})
     \cup (IF needRule /\ \E i \in 1..Len(g) : ~(elemLen + 1 > g[i].c)
           THEN {<<"C09", "grew_although_record_fits">>} ELSE {})
     \cup (IF refused # {} /\ Max(refused) # Len(g)
           THEN {<<"C09", "asked_again_after_refusal">>} ELSE {})

\* ---------------------------------------------------------------- C13: views of a record
StrOK(sr, bytes) == (sr.ok <=> ValidUtf8(bytes)) /\ (sr.ok => sr.b = bytes)
ViewsFasta(a) ==
  LET v == a.v
      L == a.lines
      cat == Concat(L)
      pieces == SplitLF(v.seq_raw)
      conj == <<
        <<"concat_lines_eq_owned_seq", cat = v.owned_seq>>,
        <<"concat_lines_eq_full_seq", cat = v.full>>,
        <<"concat_lines_eq_owned_record_seq", cat = v.oseq /\ cat = v.oseq2>>,
        <<"owned_head", a.head = v.ohead /\ a.head = v.ohead2>>,
        <<"raw_seq_differs_only_by_terminators",
            IF Len(L) = 0 THEN v.seq_raw = <<>>
            ELSE Len(pieces) = Len(L) /\ \A i \in 1..Len(L) : (IF i < Len(L) THEN TrimCR(pieces[i]) ELSE pieces[i]) = L[i]>>,
        <<"num_lines", v.nlines = Len(L) /\ v.len = Len(L)>>,
        <<"lines_reversed", v.lines_rev = Reverse(L)>>,
        <<"size_hint", v.hint = <<Len(L), Len(L)>> >>,
        <<"borrowed_iff_single_line", v.borrowed <=> (Len(L) = 1)>>,
        <<"id", v.id = IdOf(a.head) /\ v.id2 = v.id /\ v.oid = v.id>>,
        <<"desc", v.desc = DescOf(a.head) /\ v.desc2 = v.desc /\ v.odesc = v.desc>>,
        <<"id_str", StrOK(v.id_str, IdOf(a.head))>>,
        <<"desc_str", (v.desc_str.none <=> DescOf(a.head) = <<>>)
                      /\ (DescOf(a.head) # <<>> => StrOK(v.desc_str, DescOf(a.head)[1]))>>,
        <<"id_desc_str", (v.id_desc_str.ok <=> ValidUtf8(a.head))
                         /\ (v.id_desc_str.ok => v.id_desc_str.id = IdOf(a.head) /\ v.id_desc_str.desc = DescOf(a.head))>>
      >>
      \* the line iterator entered through nth / nth_back (C20: the standard iterator contracts): the k-th line from either
      \* end, and an nth beyond the end reports the end for good
      n == Len(L)
      conj20 == IF "lines_nth" \notin DOMAIN v THEN <<>> ELSE <<
        <<"nth_item", Len(v.lines_nth) = n /\ \A k \in 1..n : v.lines_nth[k].some /\ v.lines_nth[k].item = L[k]>>,
        <<"nth_back_item", Len(v.lines_nth_back) = n /\ \A k \in 1..n : v.lines_nth_back[k].some /\ v.lines_nth_back[k].item = L[n + 1 - k]>>,
        <<"nth_past_the_end_is_final", v.nth_past.none /\ v.nth_past.len = 0 /\ v.nth_past.next_none>>
      >>
  IN {<<"C13", conj[i][1]>> : i \in {i \in 1..Len(conj) : ~conj[i][2]}}
     \cup {<<"C20", conj20[i][1]>> : i \in {i \in 1..Len(conj20) : ~conj20[i][2]}}
     \* C01: the sequence of a record is its lines with the terminators removed - whichever way the line iterator is entered
     \cup (IF v.lines_rev # Reverse(L) \/ \E i \in {i \in 1..Len(conj20) : ~conj20[i][2]} : conj20[i][1] \in {"nth_item", "nth_back_item"}
           THEN {<<"C01", "sequence_lines_differ_by_access_path">>} ELSE {})
ViewsFastq(a) ==
  LET v == a.v
      conj == <<
        <<"owned_head", a.head = v.ohead /\ a.head = v.ohead2>>,
        <<"owned_seq", a.lines[1] = v.oseq /\ a.lines[1] = v.oseq2>>,
        <<"owned_qual", a.qual = v.oqual /\ a.qual = v.oqual2>>,
        <<"id", v.id = IdOf(a.head) /\ v.id2 = v.id /\ v.oid = v.id>>,
        <<"desc", v.desc = DescOf(a.head) /\ v.desc2 = v.desc /\ v.odesc = v.desc>>,
        <<"id_str", StrOK(v.id_str, IdOf(a.head))>>,
        <<"desc_str", (v.desc_str.none <=> DescOf(a.head) = <<>>)
                      /\ (DescOf(a.head) # <<>> => StrOK(v.desc_str, DescOf(a.head)[1]))>>,
        <<"id_desc_str", (v.id_desc_str.ok <=> ValidUtf8(a.head))
                         /\ (v.id_desc_str.ok => v.id_desc_str.id = IdOf(a.head) /\ v.id_desc_str.desc = DescOf(a.head))>>
      >>
  IN {<<"C13", conj[i][1]>> : i \in {i \in 1..Len(conj) : ~conj[i][2]}}
ViewsViol(fmt, a) == IF "v" \notin DOMAIN a THEN {} ELSE IF fmt = "fasta" THEN ViewsFasta(a) ELSE ViewsFastq(a)

\* C10 / C11: what the record methods write (logged with the views)
NoByte(s, bs) == \A i \in 1..Len(s) : s[i] \notin bs
HeadInDomain(h) == NoByte(h, {LF}) /\ ~HasCR(h)
FaRound(out, head, seq) ==
  LET c == FaChain(out) IN Len(c) = 2 /\ c[1].okRec /\ c[1].rec.head = head /\ Concat(c[1].rec.lines) = seq /\ c[2].okEnd
FaWrapOK(out, w) ==
  LET c == FaChain(out)
      L == c[1].rec.lines
  IN Len(c) = 2 /\ c[1].okRec /\ \A i \in 1..Len(L) : Len(L[i]) <= w /\ (i < Len(L) => Len(L[i]) = w)
FqRound(out, head, seq, qual) ==
  LET c == FqChain(out) IN Len(c) = 2 /\ c[1].okRec /\ c[1].errs = {} /\ c[1].rec.head = head /\ c[1].rec.lines = <<seq>> /\ c[1].rec.qual = qual /\ c[2].okEnd /\ ~c[2].okRec
FaTwice(out, head, seq) ==
  LET c == FaChain(out \o out) IN Len(c) = 3 /\ c[3].okEnd /\ \A i \in 1..2 : c[i].okRec /\ c[i].rec.head = head /\ Concat(c[i].rec.lines) = seq
FqTwice(out, head, seq, qual) ==
  LET c == FqChain(out \o out) IN Len(c) = 3 /\ c[3].okEnd /\ ~c[3].okRec
                                  /\ \A i \in 1..2 : c[i].okRec /\ c[i].errs = {} /\ c[i].rec.head = head /\ c[i].rec.lines = <<seq>> /\ c[i].rec.qual = qual
StripLF(s) == IF Len(s) > 0 /\ s[Len(s)] = LF THEN SubSeq(s, 1, Len(s) - 1) ELSE s
NonEmpty(ls) == SelectSeq(ls, LAMBDA z : z # <<>>)
WriteViol(fmt, el, a) ==
  IF "v" \notin DOMAIN a \/ ~el.okRec \/ el.zone THEN {}
  ELSE LET v == a.v IN
  IF fmt = "fasta"
  THEN LET cat == Concat(a.lines)
           dom == HeadInDomain(a.head) /\ NoByte(cat, {LF, CR, GT})
           wu0 == StripLF(v.wu)
           c == FaChain(v.wu)
           conj == <<
             <<"C10", "record_write_roundtrip", ~dom \/ (FaRound(v.w, a.head, cat) /\ FaRound(v.ow, a.head, cat))>>,
             <<"C10", "record_write_wrap", ~dom \/ (FaRound(v.ww, a.head, cat) /\ FaWrapOK(v.ww, 3) /\ FaRound(v.oww, a.head, cat) /\ FaWrapOK(v.oww, 3))>>,
             \* "many records written back to back parse to the same list": the same record written twice gives two records
             <<"C10", "record_written_twice_parses_to_two_records", ~dom \/ \A o \in {v.w, v.ow, v.ww, v.oww} : FaTwice(o, a.head, cat)>>,
             <<"C11", "fasta_write_unchanged_bytes",
                 /\ Len(v.wu) > 0 /\ v.wu[Len(v.wu)] = LF /\ Len(wu0) <= Len(el.raw) /\ SubSeq(el.raw, 1, Len(wu0)) = wu0
                 /\ AllBlank(SubSeq(el.raw, Len(wu0) + 1, Len(el.raw)))>>,
             <<"C11", "fasta_write_unchanged_reparses", Len(c) = 2 /\ c[1].okRec /\ c[1].rec.head = a.head /\ NonEmpty(c[1].rec.lines) = NonEmpty(a.lines)>>
           >>
       IN {<<conj[i][1], conj[i][2]>> : i \in {i \in 1..Len(conj) : ~conj[i][3]}}
  ELSE LET dom == HeadInDomain(a.head) /\ NoByte(a.lines[1], {LF, CR}) /\ NoByte(a.qual, {LF, CR})
           conj == <<
             <<"C11", "record_write_roundtrip", ~dom \/ (FqRound(v.w, a.head, a.lines[1], a.qual) /\ FqRound(v.ow, a.head, a.lines[1], a.qual))>>,
             <<"C11", "record_written_twice_parses_to_two_records", ~dom \/ \A o \in {v.w, v.ow} : FqTwice(o, a.head, a.lines[1], a.qual)>>,
             <<"C11", "write_unchanged_reproduces_bytes", v.wu = StripLF(el.raw) \o <<LF>> >>
           >>
       IN {<<conj[i][1], conj[i][2]>> : i \in {i \in 1..Len(conj) : ~conj[i][3]}}

\* C12: a well-formed file (fields free of CR/LF) never yields a carriage return or an error
\* (the input of a C12 group is a rendering of a well-formed structure whose fields contain no CR: a CR in anything the
\* record hands out - also through its owned copy, its full / owned sequence, or the line iterator entered by nth or from
\* the back - can only be a line terminator)
CrViewViol(r) ==
  IF "v" \notin DOMAIN r THEN FALSE
  ELSE LET v == r.v
           flds == <<v.ohead, v.oseq, v.ohead2, v.oseq2, v.id, v.oid>>
                   \o (IF "full" \in DOMAIN v THEN <<v.full, v.owned_seq>> \o v.lines_rev ELSE <<>>)
                   \o (IF "oqual" \in DOMAIN v THEN <<v.oqual, v.oqual2>> ELSE <<>>)
                   \o (IF "lines_nth" \in DOMAIN v THEN [k \in 1..Len(v.lines_nth) |-> v.lines_nth[k].item] \o [k \in 1..Len(v.lines_nth_back) |-> v.lines_nth_back[k].item] ELSE <<>>)
       IN \E i \in 1..Len(flds) : ~NoByte(flds[i], {CR})
CrViol(e, r) == IF e.pp = "C12" /\ r.k = "rec" /\ (~(NoByte(r.head, {CR}) /\ NoByte(r.qual, {CR}) /\ \A i \in 1..Len(r.lines) : NoByte(r.lines[i], {CR})) \/ CrViewViol(r))
                THEN {<<"C12", "carriage_return_in_returned_field">>} ELSE {}
ErrViol12(e, r) == IF e.pp = "C12" /\ r.k \in FormatErr THEN {<<"C12", "error_on_well_formed_file">>} ELSE {}

\* C19: an owned record survives serialisation
SerdeViol(a) ==
  IF "serde" \notin DOMAIN a THEN {}
  ELSE (IF a.serde.eq /\ a.serde.head = a.head /\ a.serde.seq = Concat(a.lines) /\ a.serde.qual = a.qual
        THEN {} ELSE {<<"C19", "owned_record_roundtrip">>})
       \* the serialised form has the same fields whatever the content (a field left out when it is empty survives JSON, but
       \* not a format that reads fields by position); nf_ref: the same count for a record whose fields are all non-empty
       \cup (IF "nf" \notin DOMAIN a.serde \/ a.serde.nf = a.serde.nf_ref THEN {} ELSE {<<"C19", "serialised_shape_depends_on_content">>})

\* ---------------------------------------------------------------- C18: allocation accounting
MaxLines(batch) == IF batch = <<>> THEN 0 ELSE Max({Len(batch[i].lines) : i \in 1..Len(batch)})
\* a call may allocate only if it sets a new high-water mark, grows the buffer or fails
AllocViolNext(s, e) ==
  IF e.alloc <= 0 \/ e.res.k # "rec" \/ e.grow # <<>> THEN {}
  ELSE IF Len(e.res.lines) + 1 > s.hwL THEN {} ELSE {<<"C18", "next_allocated_in_steady_state">>}
\* nxl: line count (+1) of the record after the batch, which the reader may already have begun to scan;
\* nxerr: an invalid record follows the batch (its error value is built, then reported by the next call)
\* has the source reported the end of the input (a read that returned nothing) up to and including this call?
EofSeen(s, e) == s.eof \/ \E i \in 1..Len(e.io) : e.io[i].t = "r" /\ e.io[i].g = 0 /\ e.io[i].e = ""
AllocViolSet(s, e, batch, nxl, nxerr) ==
  IF e.alloc <= 0 \/ e.res.k # "ok" \/ e.grow # <<>> \/ nxerr THEN {}
  ELSE LET t == e.slot
           hw == s.hwS[t]
           newhw == \/ Len(batch) > Len(hw)
                    \/ \E i \in 1..Len(batch) : Len(batch[i].lines) + 1 > hw[i]
                    \/ MaxLines(batch) + 1 > s.hwL
                    \/ nxl > s.hwL
                    \* the set's buffer is a copy of the reader's: a new capacity is needed when the reader's buffer has grown or
                    \* when the set was last filled from a partly filled buffer (at the end of the input) - not otherwise
                    \/ (e.setcap[t] # s.setcap[t] /\ ~(s.fullfill[t] /\ s.capAtFill[t] = e.cap /\ e.cap >= 0))
       IN IF newhw THEN {} ELSE {<<"C18", "set_read_allocated_in_steady_state">>}
HwAfterSet(s, e, batch) ==
  LET t == e.slot
      hw == s.hwS[t]
      n == Max({Len(hw), Len(batch)})
  IN [s.hwS EXCEPT ![t] = [i \in 1..n |-> Max({IF i <= Len(hw) THEN hw[i] ELSE 0,
                                                 IF i <= Len(batch) THEN Len(batch[i].lines) + 1 ELSE 0})]]
\* the buffer capacity stays unchanged while nothing needs to grow (C18)
CapViol(s, e) == IF e.cap >= 0 /\ s.cap > 0 /\ e.grow = <<>> /\ e.cap # s.cap
                 THEN {<<"C18", "buffer_capacity_changed_without_growth">>} ELSE {}

\* ---------------------------------------------------------------- one observed call
Base(fmt) == IF fmt = "fasta" THEN "C01" ELSE "C02"
\* which property fixes the result that is due: the one whose clause governs the context (interleaving, seek, plain
\* reading); after a take-over (a policy installed after a refusal) C09's "without disturbing the stream" as well
Blame(fmt, s) == IF "mixed" \in s.ctx THEN "C04" ELSE IF "seek" \in s.ctx THEN "C05" ELSE Base(fmt)
Bl(fmt, s, w) == {<<Blame(fmt, s), w>>} \cup (IF "takeover" \in s.ctx THEN {<<"C09", w>>} ELSE {})

\* greedy match of a batch to records after index lim, in order (limbo rule of C06)
RECURSIVE LimboMatch(_, _, _)
LimboMatch(chain, batch, lim) ==   \* returns the new lim, or 0 if some record is not genuine / out of order
  IF batch = <<>> THEN lim
  ELSE LET c == {i \in (lim + 1)..Len(chain) : chain[i].okRec /\ Eq(batch[1], chain[i].rec, FALSE)}
       IN IF c = {} THEN 0 ELSE LimboMatch(chain, Tail(batch), Min(c))

JudgeRead(fmt, chain, s, e) ==
  LET r == e.res
      j == e.op = "iter"
      el == chain[s.cur]
      fault == IF e.fault THEN {<<"C14", "records_before_failure">>} ELSE {}
      fab == IF r.k = "rec" /\ ~Member(chain, r, j) THEN {<<"C06", "fabricated_record">>} ELSE {}
  IN
  \* a call that panics or hangs where the model knows the one result the call has to return has not returned it
  CASE r.k \in {"panic", "hang"} -> [viol |-> {<<"C06", r.k>>} \cup (IF s.mode \in {"stream", "ended", "failed"} THEN Bl(fmt, s, "no_result") ELSE {}),
                                     s |-> [s EXCEPT !.mode = "lost"]]
    [] s.mode = "stream" /\ r.k = "rec" ->
         LET ok == el.okRec /\ Eq(r, el.rec, j)
             posbad == ok /\ e.op = "next" /\ e.pos # <<>> /\ el.coords /\ e.pos # <<el.line, el.byte>>
             \* an owned record (records(), into_records()) that is a genuine record with the right header but whose sequence
             \* is not the concatenation of the lines: the owned copy disagrees with the other views (C13)
             ownedbad == j /\ ~ok /\ el.okRec /\ r.head = el.rec.head
         IN [viol |-> (IF ok THEN {} ELSE Bl(fmt, s, "record_content") \cup fab \cup fault \cup (IF ownedbad THEN {<<"C13", "owned_copy_differs_from_the_record">>} ELSE {}))
                      \cup (IF posbad THEN {<<"C05", "position_of_returned_record">>} ELSE {})
                      \cup ViewsViol(fmt, r) \cup SerdeViol(r) \cup CrViol(e, r)
                      \cup (IF ok THEN WriteViol(fmt, el, r) ELSE {})
                      \cup (IF e.op = "next" THEN AllocViolNext(s, e) ELSE {}),
             s |-> IF ok THEN [s EXCEPT !.cur = @ + 1, !.hwL = Max({@, Len(el.rec.lines) + 1}), !.nread = @ + 1]
                   ELSE [s EXCEPT !.mode = "lost"]]
    [] s.mode = "stream" /\ r.k = "none" ->
         [viol |-> IF el.okEnd THEN {} ELSE Bl(fmt, s, "end_of_input_too_early") \cup fault,
          s |-> [s EXCEPT !.mode = IF el.okEnd THEN "ended" ELSE "lost"]]
    [] s.mode = "stream" /\ r.k \in FormatErr ->
         LET kok == KindIn(r, el.errs) IN
         [viol |-> (IF kok THEN {} ELSE Bl(fmt, s, "error_kind") \cup fault)
                   \cup (IF kok /\ ~FieldsIn(r, el.errs) THEN {<<"C17", "error_fields">>} ELSE {})
                   \cup (IF kok /\ ~MsgOK(r) THEN {<<"C17", "error_message">>} ELSE {}) \cup ErrViol12(e, r),
          s |-> [s EXCEPT !.mode = IF kok THEN "failed" ELSE "lost"]]
    [] r.k \in {"io", "buffer_limit"} -> [viol |-> {}, s |-> [s EXCEPT !.mode = "limbo", !.lim = IF s.mode = "stream" THEN s.cur - 1 ELSE s.lim,
                                                                        !.lcause = IF s.mode = "stream" THEN r.k ELSE @]]
    [] s.mode \in {"ended", "failed"} ->
         IF r.k = "none" THEN [viol |-> {}, s |-> s]
         ELSE [viol |-> Bl(fmt, s, "result_after_end_or_error") \cup fab
                        \cup (IF e.op = "iter" THEN {<<"C20", "owned_record_iterator_not_fused">>} ELSE {}),
               s |-> [s EXCEPT !.mode = "lost"]]
    [] s.mode = "limbo" ->
         IF r.k = "rec"
         THEN LET c == {i \in (s.lim + 1)..Len(chain) : chain[i].okRec /\ Eq(r, chain[i].rec, j)} IN
              IF c = {} THEN [viol |-> {<<"C06", "record_after_error_not_genuine_or_out_of_order">>}, s |-> [s EXCEPT !.mode = "lost"]]
              ELSE [viol |-> {}, s |-> [s EXCEPT !.lim = Min(c)]]
         \* a format error returned after an earlier error must still pinpoint a real offending record (C17)
         ELSE IF r.k \in FormatErr /\ ~(\E i \in 1..Len(chain) : FieldsIn(r, chain[i].errs))
         THEN [viol |-> {<<"C17", "error_fields_after_earlier_error">>}, s |-> s]
         ELSE [viol |-> {}, s |-> s]
    [] OTHER -> [viol |-> {<<"C06", "unclassified_result">>}, s |-> [s EXCEPT !.mode = "lost"]]

\* record sets are kept and compared without the optional view fields
Strip(sq) == [i \in 1..Len(sq) |-> [k |-> "rec", head |-> sq[i].head, lines |-> sq[i].lines, qual |-> sq[i].qual]]
JudgeSet(fmt, chain, s, e) ==
  LET r == e.res
      t == e.slot
      batch == e.sets[t]
      kk == Len(batch)
      N == Len(chain)
      el == chain[s.cur]
      \* a record set keeps its buffer for the next batch whatever the call returned (C18: "a reused record set"): only
      \* shrink_buffer_to_fit gives memory back
      others == (IF \E u \in 1..Len(s.sets) : u # t /\ Strip(e.sets[u]) # s.sets[u]
                 THEN {<<"C04", "other_record_set_changed">>} ELSE {})
                \cup (IF ~e.sets_panic /\ \E u \in 1..Len(s.setcap) : e.setcap[u] < s.setcap[u]
                      THEN {<<"C18", "record_set_buffer_released">>} ELSE {})
      fabset == IF \E i \in 1..kk : ~Member(chain, batch[i], FALSE) THEN {<<"C06", "fabricated_record_in_set">>} ELSE {}
      keep == [s EXCEPT !.sets[t] = Strip(batch), !.ctx = @ \cup {"mixed"}, !.setcap = e.setcap,
                        !.fullfill[t] = (r.k = "ok" /\ ~EofSeen(s, e)), !.capAtFill[t] = e.cap]
      MustRec(i) == i <= N /\ chain[i].okRec /\ chain[i].errs = {} /\ ~chain[i].okEnd
  IN
  IF e.sets_panic \/ r.k \in {"panic", "hang"}
  THEN [viol |-> {<<"C06", IF e.sets_panic THEN "iterating_record_set_panicked" ELSE r.k>>}
                 \cup (IF s.mode \in {"stream", "ended", "failed"} THEN {<<"C04", "no_result">>} ELSE {}),
        s |-> [s EXCEPT !.mode = "lost"]]
  ELSE
  CASE s.mode = "stream" /\ r.k = "ok" ->
         LET allok == /\ kk >= 1 /\ s.cur + kk - 1 <= N
                      /\ \A i \in 1..kk : chain[s.cur + i - 1].okRec /\ Eq(batch[i], chain[s.cur + i - 1].rec, FALSE)
             exactok == e.op = "exact" => kk <= e.n /\ (kk = e.n \/ ~MustRec(s.cur + kk))
             nx == IF allok /\ s.cur + kk <= N THEN chain[s.cur + kk] ELSE el
             posbad == allok /\ e.pos # <<>> /\ nx.coords /\ e.pos # <<nx.line, nx.byte>>
             nxl == IF allok /\ s.cur + kk <= N /\ nx.okRec THEN Len(nx.rec.lines) + 1 ELSE 0
             \* the right number of records, each at its place, but a field differs: the record taken from the set is not what the
             \* same record shows when it is read singly (C13: "records taken from record sets expose identical values")
             fielddiff == ~allok /\ kk >= 1 /\ s.cur + kk - 1 <= N /\ (\A i \in 1..kk : chain[s.cur + i - 1].okRec)
                          /\ \A i \in 1..kk : Eq(batch[i], chain[s.cur + i - 1].rec, FALSE) \/ batch[i].lines = chain[s.cur + i - 1].rec.lines \/ batch[i].head = chain[s.cur + i - 1].rec.head
         IN [viol |-> (IF allok THEN {} ELSE {<<"C04", "batch_content">>} \cup fabset \cup (IF "takeover" \in s.ctx THEN {<<"C09", "batch_content">>} ELSE {})
                                            \cup (IF fielddiff THEN {<<"C13", "record_from_a_set_differs_from_the_record_read_singly">>} ELSE {}))
                      \cup (IF allok /\ ~exactok THEN {<<"C04", "exact_count">>} ELSE {})
                      \cup (IF posbad THEN {<<"C05", "position_after_record_set">>} ELSE {})
                      \cup others \cup AllocViolSet(s, e, batch, nxl, allok /\ s.cur + kk <= N /\ nx.errs # {})
                      \cup UNION {CrViol(e, batch[i]) \cup ViewsViol(fmt, batch[i]) : i \in 1..kk},
             s |-> IF allok THEN [keep EXCEPT !.cur = @ + kk, !.hwS = HwAfterSet(s, e, batch),
                                             !.hwL = Max({@, MaxLines(batch) + 1}), !.nread = @ + kk]
                   ELSE [s EXCEPT !.mode = "lost"]]
    [] s.mode \in {"stream", "ended", "failed"} /\ r.k = "none" ->
         LET endok == s.mode # "stream" \/ el.okEnd
             slotok == Strip(batch) = s.sets[t] \/ batch = <<>>
         IN [viol |-> (IF endok THEN {} ELSE {<<"C04", "end_of_input_although_records_left">>})
                      \cup (IF slotok THEN {} ELSE {<<"C04", "record_set_content_after_none">>} \cup fabset) \cup others,
             s |-> IF endok THEN [keep EXCEPT !.mode = IF s.mode = "stream" THEN "ended" ELSE s.mode] ELSE [s EXCEPT !.mode = "lost"]]
    [] s.mode = "stream" /\ r.k \in FormatErr ->
         \* the records that precede the invalid one are delivered first ("deliver only records that
         \* precede it and then report its error"): the error is due when the cursor has reached it
         LET cand == {s.cur}
             kok == \E i \in cand : KindIn(r, chain[i].errs)
             fok == \E i \in cand : FieldsIn(r, chain[i].errs)
         IN [viol |-> (IF kok THEN {} ELSE {<<"C04", "error_kind">>})
                      \cup (IF kok /\ ~fok THEN {<<"C17", "error_fields">>} ELSE {})
                      \cup (IF kok /\ ~MsgOK(r) THEN {<<"C17", "error_message">>} ELSE {})
                      \cup fabset \cup others,
             s |-> [keep EXCEPT !.mode = IF kok THEN "failed" ELSE "lost"]]
    [] r.k \in {"io", "buffer_limit"} ->
         \* (an exact-count read that is refused half-way has already consumed the records it had collected:
         \* where the stream continues after that is not specified; a plain set read fails on its first record)
         [viol |-> fabset \cup others, s |-> [keep EXCEPT !.mode = "limbo", !.lim = IF s.mode = "stream" THEN s.cur - 1 ELSE s.lim,
                                                            !.lcause = IF s.mode = "stream" /\ e.op = "set" THEN r.k ELSE ""]]
    [] s.mode \in {"ended", "failed"} ->
         [viol |-> {<<"C04", "result_after_end_or_error">>} \cup fabset, s |-> [s EXCEPT !.mode = "lost"]]
    [] s.mode = "limbo" ->
         IF r.k = "ok"
         THEN LET nl == LimboMatch(chain, batch, s.lim) IN
              IF kk = 0 \/ nl = 0 THEN [viol |-> {<<"C06", "records_after_error_not_genuine_or_out_of_order">>}, s |-> [s EXCEPT !.mode = "lost"]]
              ELSE [viol |-> others, s |-> [keep EXCEPT !.lim = nl]]
         ELSE [viol |-> fabset \cup others
                        \cup (IF r.k \in FormatErr /\ ~(\E i \in 1..N : FieldsIn(r, chain[i].errs))
                              THEN {<<"C17", "error_fields_after_earlier_error">>} ELSE {}),
               s |-> keep]
    [] OTHER -> [viol |-> {<<"C06", "unclassified_result">>}, s |-> [s EXCEPT !.mode = "lost"]]

JudgeSeek(fmt, chain, s, e) ==
  LET r == e.res
      tgt == {i \in 1..Len(chain) : chain[i].coords /\ e.to = <<chain[i].line, chain[i].byte>>}
  IN CASE r.k \in {"panic", "hang"} -> [viol |-> {<<"C06", r.k>>}, s |-> [s EXCEPT !.mode = "lost"]]
       [] r.k = "ok" -> IF tgt = {} THEN [viol |-> {}, s |-> [s EXCEPT !.mode = "lost"]]   \* not a record position: unspecified
                        \* (from a successful seek on it is the seek that determines where the stream stands, no longer an earlier take-over)
                        ELSE [viol |-> {}, s |-> [s EXCEPT !.cur = Min(tgt), !.mode = "stream", !.ctx = (@ \ {"takeover"}) \cup {"seek"}]]
       [] r.k = "io" -> [viol |-> {}, s |-> [s EXCEPT !.mode = "limbo", !.lim = 0]]
       [] OTHER -> [viol |-> {<<"C05", "seek_failed_without_source_error">>}, s |-> [s EXCEPT !.mode = "lost"]]

JudgeSerde(fmt, chain, s, e) ==
  LET want == s.sets[e.slot] IN
  IF e.res.k # "ok" THEN [viol |-> {<<"C19", "record_set_roundtrip_panicked">>}, s |-> s]
  \* (with the views logged: a record of the deserialised set shows the same views as any other record; a view that is wrong
  \* only after the round trip is a C19 matter)
  ELSE [viol |-> (IF Len(e.recs) = Len(want) /\ \A i \in 1..Len(want) : Eq(e.recs[i], want[i], FALSE)
                  THEN {} ELSE {<<"C19", "record_set_roundtrip">>})
                 \cup (IF \E i \in 1..Len(e.recs) : ViewsViol(fmt, e.recs[i]) # {} THEN {<<"C19", "views_of_deserialised_record">>} ELSE {})
                 \cup UNION {ViewsViol(fmt, e.recs[i]) : i \in 1..Len(e.recs)},
        s |-> s]

\* RecordSet::shrink_buffer_to_fit: the records of the set (and of every other set) stay what they were (C04:
\* "earlier filled sets stay unchanged"); the capacity the set reports afterwards is the new reference for C18
JudgeShrink(fmt, chain, s, e) ==
  IF e.sets_panic THEN [viol |-> {<<"C06", "iterating_record_set_panicked">>, <<"C04", "record_set_changed_by_shrink">>}, s |-> [s EXCEPT !.mode = "lost"]]
  ELSE LET t == e.slot
           changed == IF Strip(e.sets[t]) # s.sets[t] THEN {<<"C04", "record_set_changed_by_shrink">>} ELSE {}
           others == IF \E u \in 1..Len(s.sets) : u # t /\ Strip(e.sets[u]) # s.sets[u] THEN {<<"C04", "other_record_set_changed">>} ELSE {}
       IN [viol |-> changed \cup others, s |-> [s EXCEPT !.setcap = e.setcap]]

\* RecordSet::len / is_empty agree with what iterating the set yields (C04: a refilled set contains only the new batch)
SetLenViol(e) ==
  IF "setlens" \in DOMAIN e /\ ~e.sets_panic /\ Len(e.sets) = Len(e.setlens)
     /\ \E t \in 1..Len(e.sets) : e.setlens[t] # Len(e.sets[t]) \/ e.setempty[t] # (Len(e.sets[t]) = 0)
  THEN {<<"C04", "record_set_len">>} ELSE {}

\* the record being parsed, for the "only when a record does not fit" clause of C09
ElemLen(chain, s) == chain[s.cur].len

Judge(fmt, chain, s, e) ==
  LET core == CASE e.op \in {"next", "iter"} -> JudgeRead(fmt, chain, s, e)
                [] e.op \in {"set", "exact"} -> JudgeSet(fmt, chain, s, e)
                [] e.op = "seek" -> JudgeSeek(fmt, chain, s, e)
                [] e.op = "serde_set" -> JudgeSerde(fmt, chain, s, e)
                [] e.op = "shrink" -> JudgeShrink(fmt, chain, s, e)
                \* set_policy: nothing changes - except that a policy installed after a refusal takes over: the
                \* record that did not fit is due again (C09: "a policy installed in mid-stream takes over without
                \* disturbing the stream")
                [] OTHER -> [viol |-> {}, s |-> IF e.op = "set_policy" /\ s.mode = "limbo" /\ s.lcause = "buffer_limit"
                                                THEN [s EXCEPT !.mode = "stream", !.cur = s.lim + 1, !.lcause = "", !.ctx = @ \cup {"takeover", "polchange"}]
                                                ELSE IF e.op = "set_policy" THEN [s EXCEPT !.ctx = @ \cup {"polchange"}] ELSE s]
      needRule == s.mode = "stream" /\ e.op \in {"next", "iter", "set"}
      \* C18 (the buffer size stays unchanged while records are no larger): also an exact-count read of ONE
      \* record grows the buffer only if that record does not fit (C09 excludes exact-count reads)
      needRule18 == s.mode = "stream" /\ (e.op \in {"next", "iter", "set"} \/ (e.op = "exact" /\ e.n = 1))
      grew18 == IF needRule18 /\ \E i \in 1..Len(e.grow) : e.grow[i].a > 0 /\ ~(ElemLen(chain, s) + 1 > e.grow[i].c)
                THEN {<<"C18", "buffer_grew_although_record_fits">>} ELSE {}
      env == IF e.op = "serde_set" THEN {}
             ELSE IoViol(e) \cup GrowViol(s, e, ElemLen(chain, s), needRule) \cup CapViol(s, e) \cup grew18
      cap2 == IF e.cap >= 0 THEN e.cap ELSE CapAfter(s, e)
      ctx2 == core.s.ctx \cup (IF e.op # "serde_set" /\ SrcErrs(e) # {} THEN {"fault"} ELSE {})
                         \cup (IF e.res.k = "buffer_limit" THEN {"limit"} ELSE {})
      \* C11 (and its FASTA counterpart) promise that the records of a well-formed input, written unchanged one after the
      \* other, reproduce it: a well-formed input that is not parsed as the format rules say (a record lost or altered, an
      \* error, an early end) cannot be reproduced that way
      wellFormed == \A i \in 1..Len(chain) : (chain[i].okRec /\ chain[i].errs = {} /\ ~chain[i].zone)
                                             \/ (i = Len(chain) /\ chain[i].okEnd /\ ~chain[i].okRec /\ chain[i].errs = {})
      c11 == IF (\E x \in core.viol : x[1] \in {"C01", "C02", "C04", "C06"}) /\ wellFormed /\ e.op \in {"next", "iter", "set", "exact"}
             THEN {<<"C11", "well_formed_input_not_parsed_as_written">>} ELSE {}
      eof2 == IF e.op = "seek" THEN FALSE ELSE IF e.op \in {"serde_set", "shrink", "set_policy"} THEN s.eof ELSE EofSeen(s, e)
  IN [viol |-> core.viol \cup env \cup SetLenViol(e) \cup c11, s |-> [core.s EXCEPT !.cap = cap2, !.ctx = ctx2, !.eof = eof2]]
=============================================================================
