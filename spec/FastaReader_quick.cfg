CONSTANTS Alphabet = {10, 13, 62, 65} MaxLen = 6 Caps = {3,4,5,6,7} GrowLimit = 64 MaxCalls = 5
SPECIFICATION Spec
INVARIANTS RetOK PosOK GrowOnlyWhenNeeded BufInv
CHECK_DEADLOCK FALSE
