SPECIFICATION Spec
