------------------------------ MODULE TraceIter ------------------------------
(* Trace validation of the iterators the library hands out (C20) against the  *)
(* contract of SeqLinesIter (A): after any sequence of front/back steps the   *)
(* exact length and the size hint equal the number of items still to come,    *)
(* every item comes once, the ends meet, the end is sticky; adaptors that     *)
(* rely on the exact length give what their definitions say.                  *)
(* The items themselves are the sequence lines of the record as FastaFormat   *)
(* defines them.                                                              *)
EXTENDS Bytes, FastaFormat, FastqFormat, Json, IOUtils, TLC
Rec == ndJsonDeserialize(IOEnv.TRACE)
VARIABLE l
Init == l = 1
Rev(sq) == [i \in 1..Len(sq) |-> sq[Len(sq) + 1 - i]]
Min2(a, b) == IF a < b THEN a ELSE b

\* A step takes k+1 items from its end (next / next_back: k = 0; nth(k) / nth_back(k)): it returns the last of them
\* if that many are left, otherwise it reports the end and nothing is left (Iterator::nth consumes what it skips).
\* Exp(st, i, fi, bi): expected outcomes of steps i.. given fi / bi items already taken from the front / back.
RECURSIVE Exp(_, _, _, _, _)
Exp(lines, st, i, fi, bi) ==
  IF i > Len(st) THEN <<>>
  ELSE LET n == Len(lines)
           rem == n - fi - bi
           k == IF "k" \in DOMAIN st[i] THEN st[i].k ELSE 0
           take == k + 1
           hit == take <= rem
           front == st[i].s = "f"
           fi2 == IF front THEN (IF hit THEN fi + take ELSE fi + rem) ELSE fi
           bi2 == IF front THEN bi ELSE (IF hit THEN bi + take ELSE bi + rem)
           item == IF ~hit THEN <<>> ELSE IF front THEN lines[fi + take] ELSE lines[n + 1 - (bi + take)]
       IN <<[some |-> hit, item |-> item, rem |-> n - fi2 - bi2]>> \o Exp(lines, st, i + 1, fi2, bi2)

SeqLinesViol(e) ==
  LET lines == FaChain(e.input)[1].rec.lines
      n == Len(lines)
      st == e.steps
      ex == Exp(lines, st, 1, 0, 0)
      itemOK(i) == st[i].some = ex[i].some /\ (ex[i].some => st[i].item = ex[i].item)
      rem(i) == ex[i].rem
      conj == <<
        <<"panic", ~e.panic>>,
        <<"initial_length_and_hint", e.panic \/ (e.pre.len = n /\ e.pre.lo = n /\ e.pre.hi = n)>>,
        <<"item_or_end", \A i \in 1..Len(st) : itemOK(i)>>,
        <<"exact_length_after_step", \A i \in 1..Len(st) : st[i].len = rem(i)>>,
        <<"size_hint_brackets_remaining", \A i \in 1..Len(st) : st[i].lo <= rem(i) /\ (st[i].hi = -1 \/ st[i].hi >= rem(i))>>,
        <<"size_hint_of_exact_size_iterator", \A i \in 1..Len(st) : st[i].lo = rem(i) /\ st[i].hi = rem(i)>>
      >>
  IN {conj[i][1] : i \in {i \in 1..Len(conj) : ~conj[i][2]}}

AdaptViol(e) ==
  LET lines == FaChain(e.input)[1].rec.lines
      n == Len(lines)
      R == SubSeq(lines, e.kf + 1, n - e.kb)
      m == Len(R)
      conj == <<
        <<"panic", ~e.panic>>,
        <<"enumerate_rev", e.panic \/ (Len(e.enum_rev) = m /\ \A j \in 1..m : e.enum_rev[j].i = m - j /\ e.enum_rev[j].l = R[m + 1 - j])>>,
        <<"rev", e.panic \/ e.rev = Rev(R)>>,
        <<"zip", e.panic \/ (Len(e.zip) = m /\ \A j \in 1..m : e.zip[j].i = 9 + j /\ e.zip[j].l = R[j])>>,
        <<"skip", e.panic \/ e.skip1 = (IF m = 0 THEN <<>> ELSE Tail(R))>>,
        <<"skip_k", e.panic \/ "skips" \notin DOMAIN e \/ \A k \in 1..Len(e.skips) : e.skips[k] = (IF k - 1 >= m THEN <<>> ELSE SubSeq(R, k, m))>>,
        <<"step_by", e.panic \/ "step2" \notin DOMAIN e \/ e.step2 = [j \in 1..((m + 1) \div 2) |-> R[2 * j - 1]]>>,
        <<"end_reported_by_skip_is_final", e.panic \/ "skip_far" \notin DOMAIN e \/ (e.skip_far.none /\ e.skip_far.left_len = 0 /\ e.skip_far.left_next_none)>>,
        <<"collect", e.panic \/ e.collect = R>>,
        <<"count", e.panic \/ e.count = m>>,
        <<"last", e.panic \/ e.last = (IF m = 0 THEN <<>> ELSE <<R[m]>>)>>,
        <<"rposition", e.panic \/ e.rposition = m - 1>>
      >>
  IN {conj[i][1] : i \in {i \in 1..Len(conj) : ~conj[i][2]}}

SetIterViol(e) ==
  LET chain == IF e.fmt = "fasta" THEN FaChain(e.input) ELSE FqChain(e.input)
      items == FlattenSeq([k \in 1..Len(e.sets) |-> e.sets[k].items])
      conj == <<
        <<"record_set_iterator_yields_len_items", \A k \in 1..Len(e.sets) : Len(e.sets[k].items) = e.sets[k].len>>,
        <<"record_set_iterator_fused", \A k \in 1..Len(e.sets) : \A j \in 1..Len(e.sets[k].after) : e.sets[k].after[j]>>,
        <<"owned_record_iterator_fused", \A j \in 1..Len(e.owned_after) : e.owned_after[j]>>,
        \* hints[i] was taken when i-1 items had been yielded; the last one after the end
        <<"record_set_iterator_size_hint_brackets", \A k \in 1..Len(e.sets) : LET h == e.sets[k].hints  n == Len(e.sets[k].items) IN
              \A i \in 1..Len(h) : LET rem == IF i - 1 <= n THEN n - (i - 1) ELSE 0 IN h[i][1] <= rem /\ (h[i][2] = -1 \/ h[i][2] >= rem)>>,
        <<"each_record_once_in_order", Len(items) <= Len(chain) /\ \A i \in 1..Len(items) :
              chain[i].okRec /\ items[i].head = chain[i].rec.head /\ items[i].lines = chain[i].rec.lines /\ items[i].qual = chain[i].rec.qual>>
      >>
  IN {conj[i][1] : i \in {i \in 1..Len(conj) : ~conj[i][2]}}

\* owned-record iterators (records(), into_records()): before every step the size hint brackets the
\* number of items that are in fact still to come; after the end nothing more comes
OwnedIterViol(e) ==
  LET n == e.items
      h == e.hints
      \* step i (1-based) is taken when i-1 items have been yielded (the last two steps report the end)
      rem(i) == IF i - 1 <= n THEN n - (i - 1) ELSE 0
      conj == <<
        <<"owned_iterator_size_hint_lower_bound", \A i \in 1..Len(h) : h[i][1] <= rem(i)>>,
        <<"owned_iterator_size_hint_upper_bound", \A i \in 1..Len(h) : h[i][2] = -1 \/ h[i][2] >= rem(i)>>,
        <<"owned_iterator_fused", Len(h) = n + 2>>
      >>
  IN {conj[i][1] : i \in {i \in 1..Len(conj) : ~conj[i][2]}}

Next == /\ l <= Len(Rec)
        /\ LET e == Rec[l]
               v == CASE e.ev = "seqlines" -> SeqLinesViol(e) [] e.ev = "adapt" -> AdaptViol(e) [] e.ev = "setiter" -> SetIterViol(e)
                        [] e.ev = "ownediter" -> OwnedIterViol(e) [] OTHER -> {}
           IN v # {} => PrintT(<<"MISMATCH", ToJson([kind |-> e.ev, line |-> l, run |-> l, props |-> {"C20"}, why |-> v, extra |-> [ev |-> e.ev]])>>)
        /\ l' = l + 1
Spec == Init /\ [][Next]_l
Done == IF TLCGet("stats").diameter - 1 = Len(Rec) THEN TRUE ELSE Print(<<"NOT-CONSUMED", TLCGet("stats").diameter, Len(Rec)>>, FALSE)
=============================================================================
