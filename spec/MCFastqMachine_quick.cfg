CONSTANTS Alphabet = {10, 64, 43} MaxLen = 7 Caps = {3,5,8} GrowLimit = 64 MaxOps = 2
SPECIFICATION Spec
INVARIANT Refines
CHECK_DEADLOCK FALSE
