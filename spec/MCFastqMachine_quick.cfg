CONSTANTS Alphabet = {10, 64, 43} MaxLen = 7 Caps = {3,8} GrowLimit = 64 MaxOps = 2 MaxFail = 2
SPECIFICATION Spec
INVARIANT Refines
CHECK_DEADLOCK FALSE
