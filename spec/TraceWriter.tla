----------------------------- MODULE TraceWriter -----------------------------
(* Trace validation of the writing functions (C10, C11): every output the     *)
(* real functions produced is parsed by the format oracle (FastaFormat /      *)
(* FastqFormat) and must give back exactly the header, sequence and quality   *)
(* that were written; wrapped output obeys the width; output from chunks      *)
(* equals output from the whole sequence.                                     *)
EXTENDS Bytes, FastaFormat, FastqFormat, Json, IOUtils, TLC
Rec == ndJsonDeserialize(IOEnv.TRACE)
VARIABLE l
Init == l = 1

NoByte(s, bs) == \A i \in 1..Len(s) : s[i] \notin bs
HeadInDomain(h) == NoByte(h, {LF}) /\ ~HasCR(h)
FaSeqInDomain(s) == NoByte(s, {LF, CR, GT})
FqFieldInDomain(s) == NoByte(s, {LF, CR})

\* out parses to exactly one FASTA record with this head and sequence
FaRound(out, head, seq) ==
  LET c == FaChain(out) IN Len(c) = 2 /\ c[1].okRec /\ c[1].rec.head = head /\ Concat(c[1].rec.lines) = seq /\ c[2].okEnd
FaWrapOK(out, w) ==
  LET c == FaChain(out)
      L == c[1].rec.lines
  IN Len(c) = 2 /\ c[1].okRec /\ \A i \in 1..Len(L) : Len(L[i]) <= w /\ (i < Len(L) => Len(L[i]) = w)
FqRound(out, head, seq, qual) ==
  LET c == FqChain(out) IN Len(c) = 2 /\ c[1].okRec /\ c[1].errs = {} /\ c[1].rec.head = head /\ c[1].rec.lines = <<seq>> /\ c[1].rec.qual = qual /\ c[2].okEnd /\ ~c[2].okRec

FaViol(e) ==
  LET dom == HeadInDomain(e.head) /\ FaSeqInDomain(e.seq)
      plain == <<e.write_to, e.write_parts, e.head_seq, e.iddesc_seq, e.owned>>
      \* (a width that made a writing function panic has no outputs to judge)
      W == {k \in 1..Len(e.wraps) : "panic" \notin DOMAIN e.wraps[k] \/ ~e.wraps[k].panic}
      conj == <<
        <<"C10", "write_function_panicked", \A k \in 1..Len(e.wraps) : k \in W>>,
        <<"C10", "plain_roundtrip", ~dom \/ \A i \in 1..Len(plain) : FaRound(plain[i], e.head, e.seq)>>,
        <<"C10", "seq_iter_roundtrip", ~dom \/ \A i \in 1..Len(e.iters) : FaRound(e.iters[i].out, e.head, e.seq)>>,
        <<"C10", "wrap_roundtrip", ~dom \/ \A k \in W : LET w == e.wraps[k] IN
              /\ FaRound(w.write_wrap, e.head, e.seq) /\ FaRound(w.head_wrap_seq, e.head, e.seq) /\ FaRound(w.owned_wrap, e.head, e.seq)
              /\ \A i \in 1..Len(w.iters) : FaRound(w.iters[i].out, e.head, e.seq)>>,
        <<"C10", "wrap_width", ~dom \/ \A k \in W : LET w == e.wraps[k] IN
              /\ FaWrapOK(w.write_wrap, w.w) /\ FaWrapOK(w.head_wrap_seq, w.w) /\ FaWrapOK(w.owned_wrap, w.w)
              /\ \A i \in 1..Len(w.iters) : FaWrapOK(w.iters[i].out, w.w)>>,
        <<"C10", "chunked_equals_whole", Len(e.seq) = 0 \/
              /\ \A i \in 1..Len(e.iters) : e.iters[i].out = e.head_seq
              /\ \A k \in W : \A i \in 1..Len(e.wraps[k].iters) : e.wraps[k].iters[i].out = e.wraps[k].head_wrap_seq>>,
        <<"C10", "chunks_are_a_chunking", \A i \in 1..Len(e.iters) : Concat(e.iters[i].chunks) = e.seq>>,
        \* a sink that accepts a few bytes per call (and has the default write_vectored) must receive the same text
        <<"C10", "short_writing_sink_roundtrip", ~dom \/ (/\ \A i \in 1..Len(e.short) : FaRound(e.short[i], e.head, e.seq)
                                                          /\ \A k \in W : LET w == e.wraps[k] IN
                                                               /\ FaRound(w.short_write_wrap, e.head, e.seq) /\ FaWrapOK(w.short_write_wrap, w.w)
                                                               /\ FaRound(w.short_owned_wrap, e.head, e.seq) /\ FaWrapOK(w.short_owned_wrap, w.w)
                                                               /\ FaRound(w.short_iter, e.head, e.seq) /\ FaWrapOK(w.short_iter, w.w))>>
      >>
  IN {<<conj[i][1], conj[i][2]>> : i \in {i \in 1..Len(conj) : ~conj[i][3]}}

FqViol(e) ==
  LET dom == HeadInDomain(e.head) /\ FqFieldInDomain(e.seq) /\ FqFieldInDomain(e.qual) /\ Len(e.seq) = Len(e.qual)
      outs == <<e.write_to, e.write_parts, e.owned>> \o e.short
      ok == ~dom \/ \A i \in 1..Len(outs) : FqRound(outs[i], e.head, e.seq, e.qual)
  IN IF ok THEN {} ELSE {<<"C11", "fastq_roundtrip">>}

ManyViol(e) ==
  LET c == IF e.fmt = "fasta" THEN FaChain(e.out) ELSE FqChain(e.out)
      n == Len(e.recs)
      same(r, el) == el.okRec /\ el.errs = {} /\ el.rec.head = r.head /\ Concat(el.rec.lines) = r.seq /\ el.rec.qual = r.qual
      oracle == Len(c) = n + 1 /\ c[n + 1].okEnd /\ \A i \in 1..n : same(e.recs[i], c[i])
      reader == Len(e.reparsed) = n /\ \A i \in 1..n : e.reparsed[i].head = e.recs[i].head /\ e.reparsed[i].seq = e.recs[i].seq /\ e.reparsed[i].qual = e.recs[i].qual
      p == IF e.fmt = "fasta" THEN "C10" ELSE "C11"
  IN (IF oracle THEN {} ELSE {<<p, "many_records_parse_back_by_the_format_rules">>})
     \cup (IF reader THEN {} ELSE {<<p, "many_records_parse_back_with_the_reader">>})

Next == /\ l <= Len(Rec)
        /\ LET e == Rec[l]
               v == CASE e.ev = "wfa" -> FaViol(e) [] e.ev = "wfq" -> FqViol(e) [] e.ev = "wmany" -> ManyViol(e) [] OTHER -> {}
           IN v # {} => PrintT(<<"MISMATCH", ToJson([kind |-> e.ev, line |-> l, run |-> l, props |-> {x[1] : x \in v}, why |-> {x[2] : x \in v},
                                                     extra |-> [ev |-> e.ev]])>>)
        /\ l' = l + 1
Spec == Init /\ [][Next]_l
Done == IF TLCGet("stats").diameter - 1 = Len(Rec) THEN TRUE ELSE Print(<<"NOT-CONSUMED", TLCGet("stats").diameter, Len(Rec)>>, FALSE)
=============================================================================
