CONSTANTS MaxCap = 6 MaxSrc = 7 MaxIntr = 2
SPECIFICATION Spec
INVARIANTS FillRefinesAtomic PosZeroNeeded
PROPERTY Terminates
CHECK_DEADLOCK FALSE
