----------------------------- MODULE MCReaderA -----------------------------
(* Level (A) checked on its own: an IDEAL reader that follows the property   *)
(* text (cursor over the record chain; any legal batch size; seeks to record *)
(* positions) produces events of the shape the harness logs, and every event *)
(* is passed through ReaderA!Judge. TLC checks, for every input in Inputs    *)
(* and every history of ideal steps up to MaxSteps:                          *)
(*   NoFalseAlarm   Judge accepts every step of the ideal reader and tracks  *)
(*                  its state exactly (so a correct implementation is never  *)
(*                  reported);                                               *)
(*   Consequences   what the properties promise follows: the records         *)
(*                  delivered since the last seek are the chain's records    *)
(*                  from the seek target on, in order, exactly once (C04,    *)
(*                  C05), errors and end are terminal (C01, C02);            *)
(*   Sensitive      each of a set of wrong steps (skipped, repeated, altered *)
(*                  record; early end; record after the end; wrong position; *)
(*                  batch that changes another slot; short exact batch;      *)
(*                  swallowed / altered / late / surfacing-interrupt source  *)
(*                  errors; truncation error instead of the source error;    *)
(*                  fabricated record after an error; panic; growth although *)
(*                  the record fits, with a wrong argument, wrong arithmetic *)
(*                  or an answer not adopted; BufferLimit without refusal)   *)
(*                  is reported by Judge with the right property id.         *)
EXTENDS ReaderA
CONSTANTS FaInputs, FqInputs, MaxSteps, NSlots
VARIABLES fmt, x, chain, cur, mode, sets, s, steps, delivered, since, verdict, mut
vars == <<fmt, x, chain, cur, mode, sets, s, steps, delivered, since, verdict, mut>>

N == Len(chain)
\* (a record set that has been filled owns a buffer - 16 bytes here - and keeps it; len()/is_empty() tell what iteration yields)
Ev(op, slot, n, to, res, pos, newsets) ==
  [op |-> op, slot |-> slot, n |-> n, to |-> to, res |-> res, pos |-> pos, io |-> <<>>, grow |-> <<>>, cap |-> -1, alloc |-> -1,
   sets |-> newsets, sets_panic |-> FALSE,
   setcap |-> [t \in 1..NSlots |-> IF op \in {"set", "exact"} /\ t = slot /\ res.k = "ok" THEN 16 ELSE s.setcap[t]],
   setlens |-> [t \in 1..NSlots |-> Len(newsets[t])], setempty |-> [t \in 1..NSlots |-> newsets[t] = <<>>],
   fault |-> FALSE, pp |-> ""]
\* an event with source / policy sub-events
EvX(op, res, pos, io, grow, cap) ==
  [Ev(op, 0, 0, <<>>, res, pos, sets) EXCEPT !.io = io, !.grow = grow, !.cap = cap]
RdOk(n) == [t |-> "r", a |-> 8, g |-> n, e |-> ""]
RdErr(k) == [t |-> "r", a |-> 8, g |-> 0, e |-> k]
Pol == [k |-> "std", a |-> 0, b |-> 0]
RecRes(el) == [k |-> "rec", head |-> el.rec.head, lines |-> el.rec.lines, qual |-> el.rec.qual]
Coords(el) == IF el.coords THEN <<el.line, el.byte>> ELSE <<>>
\* the error an ideal reader reports for descriptor d (message as the library words it is not modelled:
\* it contains every value)
ErrRes(d) == [k |-> d.k, line |-> CHOOSE l \in d.lines : TRUE, found |-> d.found, seq |-> d.seq, qual |-> d.qual,
              id |-> CHOOSE i \in d.ids : TRUE,
              msg |-> Dec(CHOOSE l \in d.lines : TRUE) \o <<32>> \o Dec(d.seq) \o <<32>> \o Dec(d.qual) \o <<32, d.found, 32>>
                      \o (LET i == CHOOSE i \in d.ids : TRUE IN IF i = <<>> THEN <<>> ELSE i[1])]

Init == /\ \/ fmt = "fasta" /\ x \in FaInputs /\ chain = FaChain(x)
           \/ fmt = "fastq" /\ x \in FqInputs /\ chain = FqChain(x)
        /\ cur = 1 /\ mode = "stream" /\ sets = [t \in 1..NSlots |-> <<>>]
        /\ s \in {InitState(NSlots, 0), InitState(NSlots, 3), InitState(NSlots, 8)} /\ steps = 0 /\ delivered = <<>> /\ since = 1 /\ verdict = {} /\ mut = "none"

Apply(e, cur2, mode2, sets2, deliv2, since2) ==
  LET j == Judge(fmt, chain, s, e) IN
  /\ verdict' = j.viol /\ s' = j.s /\ mut' = "none"
  /\ cur' = cur2 /\ mode' = mode2 /\ sets' = sets2 /\ delivered' = deliv2 /\ since' = since2
  /\ steps' = steps + 1 /\ UNCHANGED <<fmt, x, chain>>

\* ---- ideal steps
INext(op) ==
  /\ steps < MaxSteps /\ mut = "none" /\ verdict = {}
  /\ IF mode # "stream" THEN Apply(Ev(op, 0, 0, <<>>, [k |-> "none"], <<>>, sets), cur, mode, sets, delivered, since)
     ELSE LET el == chain[cur] IN
          \/ /\ el.okRec
             /\ Apply(Ev(op, 0, 0, <<>>, RecRes(el), IF op = "next" THEN Coords(el) ELSE <<>>, sets), cur + 1, mode, sets, Append(delivered, cur), since)
          \/ /\ \E d \in el.errs : Apply(Ev(op, 0, 0, <<>>, ErrRes(d), <<>>, sets), cur, "failed", sets, delivered, since)
          \/ /\ el.okEnd /\ Apply(Ev(op, 0, 0, <<>>, [k |-> "none"], <<>>, sets), cur, "ended", sets, delivered, since)
ISet(t, exactN) ==   \* exactN = 0: plain record set read
  /\ steps < MaxSteps /\ mut = "none" /\ verdict = {}
  /\ LET op == IF exactN = 0 THEN "set" ELSE "exact" IN
     IF mode # "stream" THEN Apply(Ev(op, t, exactN, <<>>, [k |-> "none"], <<>>, [sets EXCEPT ![t] = <<>>]), cur, mode, [sets EXCEPT ![t] = <<>>], delivered, since)
     ELSE LET run == {k \in 1..(N - cur + 1) : \A i \in 0..(k - 1) : chain[cur + i].okRec}      \* batch sizes with only records
              must == {k \in run : \A i \in 0..(k - 1) : chain[cur + i].errs = {} /\ ~chain[cur + i].okEnd}
          IN \/ \E k \in run :
                  /\ exactN = 0 \/ (k <= exactN /\ (k = exactN \/ k = Cardinality(run)))
                  /\ LET batch == [i \in 1..k |-> RecRes(chain[cur + i - 1])]
                         ns == [sets EXCEPT ![t] = batch]
                     IN Apply(Ev(op, t, exactN, <<>>, [k |-> "ok"], IF cur + k <= N THEN Coords(chain[cur + k]) ELSE <<>>, ns), cur + k, mode, ns,
                              delivered \o [i \in 1..k |-> cur + i - 1], since)
             \/ /\ run = {} /\ \E d \in chain[cur].errs :
                     Apply(Ev(op, t, exactN, <<>>, ErrRes(d), <<>>, [sets EXCEPT ![t] = <<>>]), cur, "failed", [sets EXCEPT ![t] = <<>>], delivered, since)
             \/ /\ chain[cur].okEnd
                /\ Apply(Ev(op, t, exactN, <<>>, [k |-> "none"], <<>>, sets), cur, "ended", sets, delivered, since)
ISeek(j) ==
  /\ steps < MaxSteps /\ mut = "none" /\ verdict = {} /\ j \in 1..N /\ chain[j].coords
  /\ \A i \in 1..(j - 1) : Coords(chain[i]) # Coords(chain[j])
  /\ Apply(Ev("seek", 0, 0, Coords(chain[j]), [k |-> "ok"], <<>>, sets), j, "stream", sets, <<>>, j)

\* RecordSet::shrink_buffer_to_fit: the set keeps its records, its buffer may become smaller
IShrink(t) ==
  /\ steps < MaxSteps /\ mut = "none" /\ verdict = {} /\ mode \in {"stream", "ended", "failed"}
  /\ \E c \in {s.setcap[t], 4} : c <= s.setcap[t]
       /\ Apply([Ev("shrink", t, s.setcap[t], <<>>, [k |-> "ok"], <<>>, sets) EXCEPT !.setcap[t] = c], cur, mode, sets, delivered, since)
\* a policy installed after a refusal takes over: the record that did not fit is due again
ITakeover ==
  /\ steps < MaxSteps /\ mut = "none" /\ verdict = {} /\ mode = "limbo" /\ s.lcause = "buffer_limit"
  /\ Apply(Ev("set_policy", 0, 0, <<>>, [k |-> "ok"], <<>>, sets), cur, "stream", sets, <<>>, cur)

\* an owned record handed out by the iterator, with the outcome of its serialisation round trip (C19): the copy that came back
\* and the number of fields written (nf) next to that of a record whose fields are all non-empty (nf_ref)
SerdeOf(el, seq, nf) == [eq |-> seq = Concat(el.rec.lines), head |-> el.rec.head, seq |-> seq, qual |-> el.rec.qual, nf |-> nf, nf_ref |-> 3]
ISerde ==
  /\ steps < MaxSteps /\ mut = "none" /\ verdict = {} /\ mode = "stream" /\ chain[cur].okRec
  /\ LET el == chain[cur] IN
       Apply(Ev("iter", 0, 0, <<>>, RecRes(el) @@ [serde |-> SerdeOf(el, Concat(el.rec.lines), 3)], <<>>, sets), cur + 1, mode, sets, Append(delivered, cur), since)

\* ---- wrong steps (each is one event an incorrect reader could produce); `mut` names the expected property
Wrong(e, name) == LET j == Judge(fmt, chain, s, e) IN
  /\ verdict' = j.viol /\ mut' = name /\ steps' = MaxSteps /\ UNCHANGED <<fmt, x, chain, cur, mode, sets, s, delivered, since>>
Differs(a, b) == a.rec.head # b.rec.head \/ a.rec.lines # b.rec.lines \/ a.rec.qual # b.rec.qual
MSkip == /\ steps < MaxSteps /\ mut = "none" /\ verdict = {} /\ mode = "stream" /\ s.ctx = {}
         /\ cur + 1 <= N /\ chain[cur].okRec /\ chain[cur + 1].okRec /\ Differs(chain[cur], chain[cur + 1])
         /\ Wrong(Ev("next", 0, 0, <<>>, RecRes(chain[cur + 1]), Coords(chain[cur + 1]), sets), "base")
MRepeat == /\ steps < MaxSteps /\ mut = "none" /\ verdict = {} /\ mode = "stream" /\ s.ctx = {}
           /\ cur > 1 /\ chain[cur - 1].okRec /\ (~chain[cur].okRec \/ Differs(chain[cur], chain[cur - 1]))
           /\ Wrong(Ev("next", 0, 0, <<>>, RecRes(chain[cur - 1]), Coords(chain[cur - 1]), sets), "base")
MEarlyEnd == /\ steps < MaxSteps /\ mut = "none" /\ verdict = {} /\ mode = "stream" /\ s.ctx = {} /\ ~chain[cur].okEnd
             /\ Wrong(Ev("next", 0, 0, <<>>, [k |-> "none"], <<>>, sets), "base")
MAfterEnd == /\ steps < MaxSteps /\ mut = "none" /\ verdict = {} /\ mode \in {"ended", "failed"} /\ s.ctx = {} /\ chain[1].okRec
             /\ Wrong(Ev("next", 0, 0, <<>>, RecRes(chain[1]), Coords(chain[1]), sets), "base")
MWrongPos == /\ steps < MaxSteps /\ mut = "none" /\ verdict = {} /\ mode = "stream" /\ chain[cur].okRec
             /\ Wrong(Ev("next", 0, 0, <<>>, RecRes(chain[cur]), <<chain[cur].line + 1, chain[cur].byte>>, sets), "C05")
MOtherSlot == /\ steps < MaxSteps /\ mut = "none" /\ verdict = {} /\ mode = "stream" /\ chain[cur].okRec /\ NSlots >= 2 /\ sets[2] # <<>>
              /\ Wrong(Ev("set", 1, 0, <<>>, [k |-> "ok"], <<>>, [sets EXCEPT ![1] = <<RecRes(chain[cur])>>, ![2] = <<>>]), "C04")
MShortExact == /\ steps < MaxSteps /\ mut = "none" /\ verdict = {} /\ mode = "stream" /\ cur + 1 <= N
               /\ chain[cur].okRec /\ chain[cur + 1].okRec /\ chain[cur + 1].errs = {} /\ ~chain[cur + 1].okEnd
               /\ Wrong(Ev("exact", 1, 2, <<>>, [k |-> "ok"], <<>>, [sets EXCEPT ![1] = <<RecRes(chain[cur])>>]), "C04")
MEmptyBatch == /\ steps < MaxSteps /\ mut = "none" /\ verdict = {} /\ mode = "stream" /\ chain[cur].okRec
               /\ Wrong(Ev("set", 1, 0, <<>>, [k |-> "ok"], <<>>, [sets EXCEPT ![1] = <<>>]), "C04")
MSeekLost == /\ steps < MaxSteps /\ mut = "none" /\ verdict = {} /\ mode = "stream" /\ "seek" \in s.ctx /\ "mixed" \notin s.ctx /\ "takeover" \notin s.ctx
             /\ cur + 1 <= N /\ chain[cur].okRec /\ chain[cur + 1].okRec /\ Differs(chain[cur], chain[cur + 1])
             /\ Wrong(Ev("next", 0, 0, <<>>, RecRes(chain[cur + 1]), Coords(chain[cur + 1]), sets), "C05")

\* ---- ideal behaviour around source errors and the growth policy (C14, C09, C06)
\* the source fails during this call: the call returns that very error; afterwards only the weak rules apply
IFault(kind) ==
  /\ steps < MaxSteps /\ mut = "none" /\ verdict = {} /\ mode = "stream"
  /\ Apply(EvX("next", [k |-> "io", kind |-> kind, msg |-> <<>>], <<>>, <<RdOk(2), RdErr(kind)>>, <<>>, -1), cur, "limbo", sets, delivered, since)
\* after an error: end of input, or genuine later records in order
IAfterFault ==
  /\ steps < MaxSteps /\ mut = "none" /\ verdict = {} /\ mode = "limbo"
  /\ \/ Apply(Ev("next", 0, 0, <<>>, [k |-> "none"], <<>>, sets), cur, mode, sets, delivered, since)
     \/ \E j \in cur..N :
           /\ chain[j].okRec
           /\ (\A i \in cur..(j - 1) : ~(chain[i].okRec /\ ~Differs(chain[i], chain[j])))
           /\ Apply(Ev("next", 0, 0, <<>>, RecRes(chain[j]), <<>>, sets), j + 1, mode, sets, delivered, since)
\* interrupted reads are retried inside the call and change nothing
IInterrupted ==
  /\ steps < MaxSteps /\ mut = "none" /\ verdict = {} /\ mode = "stream" /\ chain[cur].okRec
  /\ Apply(EvX("next", RecRes(chain[cur]), Coords(chain[cur]), <<RdErr("interrupted"), RdOk(3), RdErr("interrupted"), RdOk(1)>>, <<>>, -1),
           cur + 1, mode, sets, Append(delivered, cur), since)
\* the record does not fit: the policy is asked with the current capacity and its answer adopted
IGrow == /\ steps < MaxSteps /\ mut = "none" /\ verdict = {} /\ mode = "stream" /\ chain[cur].okRec /\ s.cap > 0 /\ chain[cur].len + 1 > s.cap
         /\ Apply(EvX("next", RecRes(chain[cur]), Coords(chain[cur]), <<RdOk(1)>>, <<[c |-> s.cap, a |-> 2 * s.cap, p |-> Pol]>>, 2 * s.cap),
                  cur + 1, mode, sets, Append(delivered, cur), since)
IRefused == /\ steps < MaxSteps /\ mut = "none" /\ verdict = {} /\ mode = "stream" /\ chain[cur].okRec /\ s.cap > 0 /\ chain[cur].len + 1 > s.cap
            /\ Apply(EvX("next", [k |-> "buffer_limit", msg |-> <<>>], <<>>, <<>>, <<[c |-> s.cap, a |-> 0, p |-> [k |-> "refuse", a |-> 0, b |-> 0]]>>, s.cap),
                     cur, "limbo", sets, delivered, since)
\* wrong steps around errors and growth
MSwallowed == /\ steps < MaxSteps /\ mut = "none" /\ verdict = {} /\ mode = "stream" /\ chain[cur].okEnd
              /\ Wrong(EvX("next", [k |-> "none"], <<>>, <<RdErr("other")>>, <<>>, -1), "C14")
MKindChanged == /\ steps < MaxSteps /\ mut = "none" /\ verdict = {} /\ mode = "stream"
                /\ Wrong(EvX("next", [k |-> "io", kind |-> "other", msg |-> <<>>], <<>>, <<RdErr("would_block")>>, <<>>, -1), "C14")
MIntrSurfaces == /\ steps < MaxSteps /\ mut = "none" /\ verdict = {} /\ mode = "stream"
                 /\ Wrong(EvX("next", [k |-> "io", kind |-> "interrupted", msg |-> <<>>], <<>>, <<RdErr("interrupted")>>, <<>>, -1), "C14")
MLateError == /\ steps < MaxSteps /\ mut = "none" /\ verdict = {} /\ mode = "stream"
              /\ Wrong(EvX("next", [k |-> "io", kind |-> "other", msg |-> <<>>], <<>>, <<RdOk(1)>>, <<>>, -1), "C14")
MTruncation == /\ steps < MaxSteps /\ mut = "none" /\ verdict = {} /\ mode = "stream" /\ fmt = "fastq" /\ chain[cur].okRec /\ chain[cur].errs = {}
               /\ Wrong(EvX("next", [k |-> "unexpected_end", line |-> chain[cur].line, found |-> 0, seq |-> 0, qual |-> 0, id |-> <<>>, msg |-> Dec(chain[cur].line)],
                            <<>>, <<RdErr("other")>>, <<>>, -1), "C14")
MFabricatedAfterError == /\ steps < MaxSteps /\ mut = "none" /\ verdict = {} /\ mode = "limbo"
                         /\ Wrong(Ev("next", 0, 0, <<>>, [k |-> "rec", head |-> <<1, 2, 3>>, lines |-> <<<<4>>>>, qual |-> <<>>], <<>>, sets), "C06")
MPanic == /\ steps < MaxSteps /\ mut = "none" /\ verdict = {}
          /\ Wrong(Ev("next", 0, 0, <<>>, [k |-> "panic", msg |-> "x"], <<>>, sets), "C06")
\* a panic where exactly one result is due is also a violation of the property that fixes that result
MPanicDue == /\ steps < MaxSteps /\ mut = "none" /\ verdict = {} /\ mode \in {"stream", "ended", "failed"} /\ s.ctx = {}
             /\ Wrong(Ev("next", 0, 0, <<>>, [k |-> "panic", msg |-> "x"], <<>>, sets), "base")
MPanicSet == /\ steps < MaxSteps /\ mut = "none" /\ verdict = {} /\ mode \in {"stream", "ended", "failed"}
             /\ Wrong(Ev("set", 1, 0, <<>>, [k |-> "panic", msg |-> "x"], <<>>, sets), "C04")
\* after a take-over the stream goes on with the refused record, not with the one after it
MTakeoverSkip == /\ steps < MaxSteps /\ mut = "none" /\ verdict = {} /\ mode = "stream" /\ "takeover" \in s.ctx
                 /\ cur + 1 <= N /\ chain[cur].okRec /\ chain[cur + 1].okRec /\ Differs(chain[cur], chain[cur + 1])
                 /\ Wrong(Ev("next", 0, 0, <<>>, RecRes(chain[cur + 1]), Coords(chain[cur + 1]), sets), "C09")
\* a record set that reports the end of the input gives its buffer back
MCapRelease == /\ steps < MaxSteps /\ mut = "none" /\ verdict = {} /\ mode \in {"ended", "failed"} /\ s.setcap[1] > 0
               /\ Wrong([Ev("set", 1, 0, <<>>, [k |-> "none"], <<>>, [sets EXCEPT ![1] = <<>>]) EXCEPT !.setcap[1] = 0], "C18")
\* len() disagrees with what iteration yields
MLenWrong == /\ steps < MaxSteps /\ mut = "none" /\ verdict = {} /\ mode = "stream" /\ chain[cur].okRec
             /\ LET ns == [sets EXCEPT ![1] = <<RecRes(chain[cur])>>] IN
                Wrong([Ev("set", 1, 0, <<>>, [k |-> "ok"], <<>>, ns) EXCEPT !.setlens[1] = 2], "C04")
\* shrinking a set loses its records
MShrinkLoses == /\ steps < MaxSteps /\ mut = "none" /\ verdict = {} /\ sets[1] # <<>> /\ mode \in {"stream", "ended", "failed"}
                /\ Wrong(Ev("shrink", 1, 0, <<>>, [k |-> "ok"], <<>>, [sets EXCEPT ![1] = <<>>]), "C04")
MGrowFits == /\ steps < MaxSteps /\ mut = "none" /\ verdict = {} /\ mode = "stream" /\ chain[cur].okRec /\ s.cap > 0 /\ ~(chain[cur].len + 1 > s.cap)
             /\ Wrong(EvX("next", RecRes(chain[cur]), Coords(chain[cur]), <<>>, <<[c |-> s.cap, a |-> 2 * s.cap, p |-> Pol]>>, 2 * s.cap), "C09")
MLimitWithoutRefusal == /\ steps < MaxSteps /\ mut = "none" /\ verdict = {} /\ mode = "stream"
                        /\ Wrong(EvX("next", [k |-> "buffer_limit", msg |-> <<>>], <<>>, <<>>, <<>>, -1), "C09")
MWrongGrowArg == /\ steps < MaxSteps /\ mut = "none" /\ verdict = {} /\ mode = "stream" /\ chain[cur].okRec /\ s.cap > 0 /\ chain[cur].len + 1 > s.cap + 1
                 /\ Wrong(EvX("next", RecRes(chain[cur]), Coords(chain[cur]), <<>>, <<[c |-> s.cap + 1, a |-> 2 * s.cap + 2, p |-> [k |-> "x", a |-> 0, b |-> 0]]>>, 2 * s.cap + 2), "C09")
MArithmetic == /\ steps < MaxSteps /\ mut = "none" /\ verdict = {} /\ mode = "stream" /\ chain[cur].okRec /\ s.cap > 0 /\ chain[cur].len + 1 > s.cap
               /\ Wrong(EvX("next", RecRes(chain[cur]), Coords(chain[cur]), <<>>, <<[c |-> s.cap, a |-> 2 * s.cap + 1, p |-> Pol]>>, 2 * s.cap + 1), "C09")
MCapNotAdopted == /\ steps < MaxSteps /\ mut = "none" /\ verdict = {} /\ mode = "stream" /\ chain[cur].okRec /\ s.cap > 0 /\ chain[cur].len + 1 > s.cap
                  /\ Wrong(EvX("next", RecRes(chain[cur]), Coords(chain[cur]), <<>>, <<[c |-> s.cap, a |-> 2 * s.cap, p |-> Pol]>>, 2 * s.cap + 3), "C09")

\* the copy that comes back from serialisation lacks a byte; the serialised form leaves a field out
MSerdeLoses == /\ steps < MaxSteps /\ mut = "none" /\ verdict = {} /\ mode = "stream" /\ chain[cur].okRec /\ Concat(chain[cur].rec.lines) # <<>>
               /\ LET el == chain[cur] IN Wrong(Ev("iter", 0, 0, <<>>, RecRes(el) @@ [serde |-> SerdeOf(el, Tail(Concat(el.rec.lines)), 3)], <<>>, sets), "C19")
MSerdeShape == /\ steps < MaxSteps /\ mut = "none" /\ verdict = {} /\ mode = "stream" /\ chain[cur].okRec
               /\ LET el == chain[cur] IN Wrong(Ev("iter", 0, 0, <<>>, RecRes(el) @@ [serde |-> SerdeOf(el, Concat(el.rec.lines), 2)], <<>>, sets), "C19")
Next == \/ ISerde \/ MSerdeLoses \/ MSerdeShape
        \/ (\E t \in 1..NSlots : IShrink(t)) \/ ITakeover \/ MPanicDue \/ MPanicSet \/ MTakeoverSkip \/ MCapRelease \/ MLenWrong \/ MShrinkLoses
        \/ IFault("other") \/ IFault("would_block") \/ IAfterFault \/ IInterrupted \/ IGrow \/ IRefused
        \/ MSwallowed \/ MKindChanged \/ MIntrSurfaces \/ MLateError \/ MTruncation \/ MFabricatedAfterError \/ MPanic
        \/ MGrowFits \/ MLimitWithoutRefusal \/ MWrongGrowArg \/ MArithmetic \/ MCapNotAdopted
        \/ INext("next") \/ INext("iter") \/ (\E t \in 1..NSlots : ISet(t, 0) \/ ISet(t, 1) \/ ISet(t, 2)) \/ (\E j \in 1..6 : ISeek(j))
        \/ MSkip \/ MRepeat \/ MEarlyEnd \/ MAfterEnd \/ MWrongPos \/ MOtherSlot \/ MShortExact \/ MEmptyBatch \/ MSeekLost
Spec == Init /\ [][Next]_vars

\* the inputs of the model-checking configurations (cfg files cannot hold tuples)
FaIn == {<<62,97,10,65,10,62,98,10,67,10,71,10,62,99,10>>,
         <<10,62,120,32,121,10,65,65,10,10,62,122>>,
         <<65,10,62,97,10>>,
         <<>>,
         <<62,97,13,10,65,67,13,10,62,97,13,10,65,67>>}
FqIn == {<<64,97,10,65,10,43,10,73,10,64,98,10,67,67,10,43,10,73,73,10>>,
         <<64,97,10,65,10,43,10,73,10,64,98,10,67,10,45,10,73,10,64,99,10,65,10,43,10,73,10>>,
         <<64,97,10,65,10,43,10,73,10,64,98,10,67,67,10>>,
         <<64,97,10,65,67,10,43,10,73,10>>,
         <<64,97,13,10,65,13,10,43,13,10,73,13,10,64,97,13,10,65,13,10,43,13,10,73>>}
Props(v) == {p[1] : p \in v}
NoFalseAlarm == mut = "none" => /\ verdict = {}
                                /\ s.mode = mode /\ s.sets = sets
                                /\ (mode # "limbo" => s.cur = cur)
Sensitive == mut # "none" => (IF mut = "base" THEN Base(fmt) ELSE mut) \in Props(verdict)
\* the records delivered since the last seek are the chain's records from the seek target on, each once, in order
Consequences == /\ \A i \in 1..Len(delivered) : delivered[i] = since + i - 1
                /\ (mode = "ended" => chain[cur].okEnd)
                /\ (mode = "stream" => cur = since + Len(delivered))
=============================================================================
