---------------------------- MODULE FastaReader ----------------------------
(* Level (B): implementation-shaped model of fasta::Reader::next() over      *)
(* buffer_redux (fill, first_byte, _search, search, resume_incomplete_search, *)
(* make_room, grow, increment_record), one action per critical section. The  *)
(* environment chooses the input; TLC checks at every return that the result *)
(* is what the record chain of FastaFormat (level A) demands - content,      *)
(* position, invalid-start fields, end of input - for every input over the   *)
(* alphabet up to MaxLen and every initial capacity in Caps, and that the    *)
(* buffer only grows when the record does not fit (C09).                     *)
EXTENDS FastaFormat, TLC
CONSTANTS Alphabet, MaxLen, Caps, GrowLimit, MaxCalls
VARIABLES x,        \* whole input (environment)
          src,      \* bytes already handed out by the source
          buf, cap, \* valid bytes in the buffer (StdBuf pos = 0 at rest), capacity
          st, start, seqpos, spos, pline, pbyte,   \* reader fields
          pc, lnum, \* program point inside a call; line counter of first_byte
          ret,      \* last result returned by next()
          ncalls, delivered, \* ghosts: calls made, records delivered
          phase,    \* ghost: "stream" | "over" (end or error was returned) | "limit"
          growok    \* ghost: every growth so far happened while the record did not fit
vars == <<x, src, buf, cap, st, start, seqpos, spos, pline, pbyte, pc, lnum, ret, ncalls, delivered, phase, growok>>

B(i) == buf[i + 1]     \* 0-based buffer access
\* lines of a buffer in the sense of split(b'\n') as 1-based [from, to] ranges (to = from-1 if empty)
Lines1(b) == LET ls == Lines(b) IN [k \in 1..Len(ls) |-> [from |-> ls[k].from + 1, to |-> ls[k].to]]
Content1(b, l) == SubSeq(b, l.from, l.to)
Blank1(b, l) == Content1(b, l) = <<>> \/ Content1(b, l) = <<CR>>
GrowTo(c) == IF c * 2 <= GrowLimit THEN c * 2 ELSE 0   \* 0 = refuse

\* ---- buffer_redux ----
FillN == Min({cap - Len(buf), Len(x) - src})
Filled == buf \o SubSeq(x, src + 1, src + FillN)

\* ---- _search on buffer b from search position sp with offsets sq ----
SearchIn(b, sp, sq) ==
  LET P == {p \in sp..(Len(b) - 1) : b[p + 1] = LF}
      T == {p \in P : p + 1 = Len(b) \/ b[p + 2] = GT}
  IN IF T = {} THEN [found |-> FALSE, sq |-> sq \o SetToSortSeq(P, <), sp |-> Len(b)]
     ELSE LET t == Min(T) IN
          IF t + 1 = Len(b)
          THEN [found |-> FALSE, sq |-> sq \o SetToSortSeq({p \in P : p < t}, <), sp |-> t]
          ELSE [found |-> TRUE, sq |-> sq \o SetToSortSeq({p \in P : p <= t}, <), sp |-> t + 1]

\* search(): returns record with new st/seqpos/spos and `ok` (= Ok(true))
SearchRes(b, c, sp, sq, s) ==
  LET r == SearchIn(b, sp, sq) IN
  IF r.found THEN [ok |-> TRUE, st |-> s, sq |-> r.sq, sp |-> r.sp]
  ELSE IF Len(b) < c THEN [ok |-> TRUE, st |-> "Finished", sq |-> Append(r.sq, r.sp), sp |-> r.sp]
  ELSE [ok |-> FALSE, st |-> "Incomplete", sq |-> r.sq, sp |-> r.sp]

\* RefRecord view
RHead(b, s, sq) == TrimCR(SubSeq(b, s + 2, sq[1]))
SeqLines(b, sq) == [k \in 1..(Len(sq) - 1) |-> TrimCR(SubSeq(b, sq[k] + 2, sq[k + 1]))]
RecRetOf(b, s, sq, ln, by) == [kind |-> "rec", head |-> RHead(b, s, sq), lines |-> SeqLines(b, sq), line |-> ln, byte |-> by]

Init == /\ x = <<>> /\ src = 0 /\ buf = <<>> /\ cap \in Caps /\ st = "New" /\ start = 0 /\ seqpos = <<>>
        /\ spos = 0 /\ pline = 0 /\ pbyte = 0 /\ pc = "build" /\ lnum = 0 /\ ret = [kind |-> "nil"]
        /\ ncalls = 0 /\ delivered = 0 /\ phase = "stream" /\ growok = TRUE

\* environment: choose the input first
Build == /\ pc = "build" /\ Len(x) < MaxLen /\ \E b \in Alphabet : x' = Append(x, b)
         /\ UNCHANGED <<src, buf, cap, st, start, seqpos, spos, pline, pbyte, pc, lnum, ret, ncalls, delivered, phase, growok>>
Start == /\ pc = "build" /\ pc' = "idle"
         /\ UNCHANGED <<x, src, buf, cap, st, start, seqpos, spos, pline, pbyte, lnum, ret, ncalls, delivered, phase, growok>>

\* after a successful search inside next(): return the record
Finish(b, sr) ==
  /\ buf' = b /\ st' = IF sr.st = "Finished" THEN "Finished" ELSE "Parsing"
  /\ seqpos' = sr.sq /\ spos' = sr.sp

Ch == FaChain(x)
CurEl == Ch[IF delivered + 1 <= Len(Ch) THEN delivered + 1 ELSE Len(Ch)]
CallNext ==
  /\ pc = "idle" /\ ncalls < MaxCalls /\ phase # "limit" /\ ncalls' = ncalls + 1
  /\ CASE st = "Finished" -> /\ ret' = [kind |-> "none"] /\ pc' = "ret"
                             /\ UNCHANGED <<x, src, buf, cap, st, start, seqpos, spos, pline, pbyte, lnum>>
       [] st = "New" -> /\ pc' = "init" /\ lnum' = 0
                        /\ UNCHANGED <<x, src, buf, cap, st, start, seqpos, spos, pline, pbyte, ret>>
       [] st = "Incomplete" -> /\ pc' = "resume"
                        /\ UNCHANGED <<x, src, buf, cap, st, start, seqpos, spos, pline, pbyte, lnum, ret>>
       [] st \in {"Parsing", "Positioned"} ->
            LET inc == st = "Parsing"
                nstart == IF inc THEN spos ELSE start
                nsq == IF inc THEN <<>> ELSE seqpos
                sr == SearchRes(buf, cap, spos, nsq, "Parsing")
            IN /\ pline' = IF inc THEN pline + Len(seqpos) ELSE pline
               /\ pbyte' = IF inc THEN pbyte + (spos - start) ELSE pbyte
               /\ start' = nstart
               /\ seqpos' = sr.sq /\ spos' = sr.sp /\ st' = sr.st
               /\ IF sr.ok THEN /\ pc' = "ret" /\ ret' = RecRetOf(buf, nstart, sr.sq, IF inc THEN pline + Len(seqpos) ELSE pline, IF inc THEN pbyte + (spos - start) ELSE pbyte)
                          ELSE /\ pc' = "resume" /\ UNCHANGED ret
               /\ UNCHANGED <<x, src, buf, cap, lnum>>
  /\ UNCHANGED <<delivered, phase, growok>>

\* one iteration of first_byte's while loop (fill, scan lines)
InitIter ==
  /\ pc = "init"
  /\ LET n == FillN
         b == Filled
     IN IF n = 0
        THEN /\ st' = "Finished" /\ ret' = [kind |-> "none"] /\ pc' = "ret"
             /\ UNCHANGED <<x, src, buf, cap, start, seqpos, spos, pline, pbyte, lnum>>
        ELSE LET ls == Lines1(b) \o (IF b[Len(b)] = LF THEN <<[from |-> Len(b) + 1, to |-> Len(b)]>> ELSE <<>>)
                 \* split('\n') yields a final (possibly empty) segment as well
                 nb == {k \in 1..Len(ls) : ~Blank1(b, ls[k])}
             IN IF nb # {}
                THEN LET f == Min(nb)  p == ls[f].from - 1  byte == b[ls[f].from] IN
                     IF byte = GT
                     THEN LET sr == SearchRes(b, cap, p + 1, <<>>, "Parsing") IN
                          /\ src' = src + n /\ buf' = b /\ start' = p /\ pbyte' = pbyte + p /\ pline' = lnum + f
                          /\ seqpos' = sr.sq /\ spos' = sr.sp /\ st' = sr.st /\ lnum' = lnum + f
                          /\ IF sr.ok THEN pc' = "ret" /\ ret' = RecRetOf(b, p, sr.sq, lnum + f, pbyte + p) ELSE pc' = "resume" /\ UNCHANGED ret
                          /\ UNCHANGED <<x, cap>>
                     ELSE /\ src' = src + n /\ buf' = b /\ st' = "Finished"
                          /\ ret' = [kind |-> "invalid_start", line |-> lnum + f, found |-> byte] /\ pc' = "ret"
                          /\ lnum' = lnum + f
                          /\ UNCHANGED <<x, cap, start, seqpos, spos, pline, pbyte>>
                ELSE LET last == ls[Len(ls)]  keep == last.to - last.from + 1 IN
                     /\ src' = src + n /\ buf' = SubSeq(b, Len(b) - keep + 1, Len(b))
                     \* consumed = pos - 1 - last_line_len; line_num -= 1; position.byte += consumed
                     /\ lnum' = lnum + Len(ls) - 1 /\ pbyte' = pbyte + (Len(b) - keep) /\ pc' = "init"
                     /\ UNCHANGED <<x, cap, st, start, seqpos, spos, pline, ret>>

\* one iteration of resume_incomplete_search(make_room = true)
ResumeIter ==
  /\ pc = "resume"
  /\ IF start = 0
     THEN IF GrowTo(cap) = 0
          THEN /\ ret' = [kind |-> "buffer_limit"] /\ pc' = "ret"
               /\ UNCHANGED <<x, src, buf, cap, st, start, seqpos, spos, pline, pbyte, lnum, growok>>
          ELSE LET c == GrowTo(cap)
                   n == Min({c - Len(buf), Len(x) - src})
                   fits == ~(CurEl.len + 1 > cap)
                   b == buf \o SubSeq(x, src + 1, src + n)
                   sr == SearchRes(b, c, spos, seqpos, st)
               IN /\ cap' = c /\ src' = src + n /\ buf' = b /\ growok' = (growok /\ ~fits)
                  /\ seqpos' = sr.sq /\ spos' = sr.sp
                  /\ IF sr.ok THEN /\ st' = (IF sr.st = "Finished" THEN "Finished" ELSE "Parsing")
                                   /\ pc' = "ret" /\ ret' = RecRetOf(b, start, sr.sq, pline, pbyte)
                             ELSE /\ st' = sr.st /\ pc' = "resume" /\ UNCHANGED ret
                  /\ UNCHANGED <<x, start, pline, pbyte, lnum>>
     ELSE LET k == start
              b0 == SubSeq(buf, k + 1, Len(buf))
              n == Min({cap - Len(b0), Len(x) - src})
              b == b0 \o SubSeq(x, src + 1, src + n)
              sq0 == [i \in 1..Len(seqpos) |-> seqpos[i] - k]
              sr == SearchRes(b, cap, spos - k, sq0, st)
          IN /\ start' = 0 /\ src' = src + n /\ buf' = b
             /\ seqpos' = sr.sq /\ spos' = sr.sp
             /\ IF sr.ok THEN /\ st' = (IF sr.st = "Finished" THEN "Finished" ELSE "Parsing")
                              /\ pc' = "ret" /\ ret' = RecRetOf(b, 0, sr.sq, pline, pbyte)
                        ELSE /\ st' = sr.st /\ pc' = "resume" /\ UNCHANGED ret
             /\ UNCHANGED <<x, cap, pline, pbyte, lnum, growok>>
  /\ UNCHANGED <<ncalls, delivered, phase>>

Return == /\ pc = "ret" /\ pc' = "idle"
          /\ delivered' = IF ret.kind = "rec" THEN delivered + 1 ELSE delivered
          /\ phase' = IF ret.kind = "buffer_limit" THEN "limit" ELSE IF ret.kind = "rec" THEN phase ELSE "over"
          /\ UNCHANGED <<x, src, buf, cap, st, start, seqpos, spos, pline, pbyte, lnum, ret, ncalls, growok>>

Next == Build \/ Start \/ CallNext \/ (InitIter /\ UNCHANGED <<ncalls, delivered, phase, growok>>) \/ ResumeIter \/ Return
Spec == Init /\ [][Next]_vars

\* ---- refinement (B) => (A): at every return the result is what the record chain demands ----
RetOK ==
  pc = "ret" =>
    IF phase = "over" THEN ret.kind = "none"
    ELSE CASE ret.kind = "rec" -> CurEl.okRec /\ ret.head = CurEl.rec.head /\ ret.lines = CurEl.rec.lines
           [] ret.kind = "none" -> CurEl.okEnd
           [] ret.kind = "invalid_start" -> \E d \in CurEl.errs : d.k = "invalid_start"
           [] ret.kind = "buffer_limit" -> GrowTo(cap) = 0
           [] OTHER -> FALSE
PosOK ==
  pc = "ret" /\ phase = "stream" =>
    CASE ret.kind = "rec" -> CurEl.okRec => ret.line = CurEl.line /\ ret.byte = CurEl.byte
      [] ret.kind = "invalid_start" -> \A d \in CurEl.errs : ret.line \in d.lines /\ ret.found = d.found
      [] OTHER -> TRUE
GrowOnlyWhenNeeded == growok
\* the buffer invariants the code relies on
BufInv == Len(buf) <= cap /\ start <= Len(buf) /\ spos <= Len(buf)
=============================================================================
