---------------------------- MODULE FastaFormat ----------------------------
(* What the records of a byte string are, read as FASTA (property C01, the  *)
(* positions of C05 and the error of C17). Written as set comprehensions    *)
(* over line indices - deliberately unlike the scanning code.               *)
EXTENDS Bytes

\* FaChain(x): the sequence of chain elements (see Bytes) of x: one per record, then the end
\* of input; or the single invalid-start error.
FaChain(x) ==
  LET ls == Lines(x)
      nb == {k \in 1..Len(ls) : ~Blank(x, ls[k])}
  IN IF nb = {} THEN <<EndElem(0, 0)>>
     ELSE LET f == Min(nb) IN
       IF x[ls[f].from + 1] # GT
       THEN <<[rec |-> NoRec, okRec |-> FALSE, okEnd |-> FALSE, line |-> f, byte |-> ls[f].from,
               len |-> Len(x) - ls[f].from, zone |-> FALSE, coords |-> FALSE, raw |-> <<>>,
               errs |-> {ErrD("invalid_start", {f}, x[ls[f].from + 1], 0, 0, {<<>>})}]>>
       ELSE LET hs == SetToSortSeq({k \in f..Len(ls) : ls[k].to > ls[k].from /\ x[ls[k].from + 1] = GT}, <)
                rec(j) == LET k == hs[j]
                              nxt == IF j < Len(hs) THEN hs[j + 1] ELSE Len(ls) + 1
                              endb == IF j < Len(hs) THEN ls[hs[j + 1]].from ELSE Len(x)
                          IN [rec |-> [head |-> TrimCR(Sl(x, ls[k].from + 1, ls[k].to)),
                                       lines |-> [m \in 1..(nxt - k - 1) |-> TrimCR(Content(x, ls[k + m]))],
                                       qual |-> <<>>],
                              okRec |-> TRUE, errs |-> {}, okEnd |-> FALSE,
                              line |-> k, byte |-> ls[k].from, len |-> endb - ls[k].from,
                              zone |-> FALSE, coords |-> TRUE, raw |-> Sl(x, ls[k].from, endb)]
            IN [j \in 1..Len(hs) |-> rec(j)] \o <<EndElem(0, 0)>>
=============================================================================
