------------------------------- MODULE Bytes -------------------------------
(* Byte strings (sequences of 0..255) and the line structure of a file.     *)
(* Offsets into a file are 0-based as in the code; TLA+ sequences are       *)
(* 1-based; Sl is the only place where the two meet.                        *)
EXTENDS Naturals, Integers, Sequences, SequencesExt, FiniteSets, FiniteSetsExt

LF == 10
CR == 13
GT == 62
AT == 64
PLUS == 43
SP == 32

\* bytes a .. b-1 (0-based, half open)
Sl(x, a, b) == SubSeq(x, a + 1, b)

TrimCR(s) == IF Len(s) > 0 /\ s[Len(s)] = CR THEN SubSeq(s, 1, Len(s) - 1) ELSE s
HasCR(s) == Len(s) > 0 /\ s[Len(s)] = CR

\* 0-based offsets of the LF bytes of x at or after offset o, ascending
LFsFrom(x, o) == SetToSortSeq({i \in o..(Len(x) - 1) : x[i + 1] = LF}, <)

\* Lines of x as 0-based half-open ranges [from, to): every LF-terminated line (without its LF)
\* plus a final non-empty unterminated one.
Lines(x) ==
  LET lf == LFsFrom(x, 0)
      n  == Len(lf)
      term == [k \in 1..n |-> [from |-> IF k = 1 THEN 0 ELSE lf[k - 1] + 1, to |-> lf[k]]]
      lastStart == IF n = 0 THEN 0 ELSE lf[n] + 1
  IN IF lastStart < Len(x) THEN Append(term, [from |-> lastStart, to |-> Len(x)]) ELSE term

Content(x, l) == Sl(x, l.from, l.to)
Blank(x, l) == Content(x, l) = <<>> \/ Content(x, l) = <<CR>>

\* every "line" of s (in the sense of split at LF) is empty or a lone CR
AllBlank(s) == \A i \in 1..Len(s) : s[i] = LF \/ (s[i] = CR /\ (i = Len(s) \/ s[i + 1] = LF))

\* id = header up to the first space; description = the rest (<<>> = none, <<d>> = some d)
Spaces(h) == {i \in 1..Len(h) : h[i] = SP}
IdOf(h) == IF Spaces(h) = {} THEN h ELSE SubSeq(h, 1, Min(Spaces(h)) - 1)
DescOf(h) == IF Spaces(h) = {} THEN <<>> ELSE <<SubSeq(h, Min(Spaces(h)) + 1, Len(h))>>

Concat(ss) == FlattenSeq(ss)

\* split at LF: always at least one piece
SplitLF(s) ==
  LET lf == SetToSortSeq({i \in 1..Len(s) : s[i] = LF}, <)
      n == Len(lf)
  IN [k \in 1..(n + 1) |-> SubSeq(s, IF k = 1 THEN 1 ELSE lf[k - 1] + 1, IF k = n + 1 THEN Len(s) ELSE lf[k] - 1)]

\* decimal digits of a natural number
RECURSIVE Dec(_)
Dec(n) == IF n < 10 THEN <<48 + n>> ELSE Append(Dec(n \div 10), 48 + (n % 10))

\* sub occurs in s as a contiguous block
HasSub(s, sub) == \E i \in 0..(Len(s) - Len(sub)) : SubSeq(s, i + 1, i + Len(sub)) = sub

\* UTF-8 validity (RFC 3629: no overlongs, no surrogates, max U+10FFFF), as a scan by index
RECURSIVE Utf8From(_, _)
Utf8From(s, i) ==
  IF i > Len(s) THEN TRUE
  ELSE LET b == s[i]
           cont(j) == j <= Len(s) /\ s[j] >= 128 /\ s[j] <= 191
           rng(j, lo, hi) == j <= Len(s) /\ s[j] >= lo /\ s[j] <= hi
       IN IF b <= 127 THEN Utf8From(s, i + 1)
          ELSE IF b >= 194 /\ b <= 223 THEN cont(i + 1) /\ Utf8From(s, i + 2)
          ELSE IF b = 224 THEN rng(i + 1, 160, 191) /\ cont(i + 2) /\ Utf8From(s, i + 3)
          ELSE IF (b >= 225 /\ b <= 236) \/ b = 238 \/ b = 239 THEN cont(i + 1) /\ cont(i + 2) /\ Utf8From(s, i + 3)
          ELSE IF b = 237 THEN rng(i + 1, 128, 159) /\ cont(i + 2) /\ Utf8From(s, i + 3)
          ELSE IF b = 240 THEN rng(i + 1, 144, 191) /\ cont(i + 2) /\ cont(i + 3) /\ Utf8From(s, i + 4)
          ELSE IF b >= 241 /\ b <= 243 THEN cont(i + 1) /\ cont(i + 2) /\ cont(i + 3) /\ Utf8From(s, i + 4)
          ELSE IF b = 244 THEN rng(i + 1, 128, 143) /\ cont(i + 2) /\ cont(i + 3) /\ Utf8From(s, i + 4)
          ELSE FALSE
ValidUtf8(s) == Utf8From(s, 1)

\* ---------------------------------------------------------------------------------------
\* Elements of a record chain: what a reader positioned at this point of the file may do.
\*   okRec: returning `rec` is right;  errs: the format errors that are right here;
\*   okEnd: reporting end of input is right;  line/byte: file coordinates of this element;
\*   len: its byte extent;  zone: TRUE where the property text leaves the outcome open.
NoRec == [head |-> <<>>, lines |-> <<>>, qual |-> <<>>]
EndElem(line, byte) == [rec |-> NoRec, okRec |-> FALSE, errs |-> {}, okEnd |-> TRUE,
                        line |-> line, byte |-> byte, len |-> 0, zone |-> FALSE, coords |-> FALSE, raw |-> <<>>]
\* error descriptor; `lines`: acceptable line numbers, `ids`: acceptable ids (<<>> none, <<id>>)
ErrD(k, lines, found, sl, ql, ids) == [k |-> k, lines |-> lines, found |-> found, seq |-> sl, qual |-> ql, ids |-> ids]
=============================================================================
