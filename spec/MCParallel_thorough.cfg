CONSTANT Configs = {}
CONSTANT MaxW = 3
SPECIFICATION ThoroughSpec
INVARIANTS Paired NoDup AllDelivered InOrder1 RecordsPaired RecordsInOrder SetsAreWhatReaderProduced
INVARIANTS ErrOnce ErrNoLater ErrDrain InitFailuresSurface ClosedOnlyAfterInitFailure PerRecordErrorsReturned
INVARIANTS BoundedSets ReaderAhead RecycledOnly CountAbstraction
PROPERTY Termination
