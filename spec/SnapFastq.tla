------------------------------ MODULE SnapFastq ------------------------------
(* Drift detector for the level-(B) model FastqReader (see SnapFasta).        *)
EXTENDS FastqReader, Json
VARIABLE cap0
SInit == Init /\ cap0 = cap
SNext == Next /\ UNCHANGED cap0
SSpec == SInit /\ [][SNext]_<<vars, cap0>>
StNum == CASE st = "New" -> 0 [] st = "Parsing" -> 1 [] st = "Positioned" -> 2 [] st = "Finished" -> 3
Emit == pc = "ret" => PrintT(<<"SNAP", ToJson([x |-> x, cap0 |-> cap0, call |-> ncalls, state |-> StNum, incomplete_pos |-> inc, buf_len |-> Len(buf), cap |-> cap,
                                               start |-> p0, end |-> p1, seq |-> sq, sep |-> sp, qual |-> ql, pos_line |-> pline, pos_byte |-> pbyte,
                                               kind |-> ret.kind])>>)
=============================================================================
