--------------------------- MODULE TraceParallel ---------------------------
(* Conformance of real read_parallel_init runs with Parallel (DESIGN 4.3).  *)
(* The input (JSON, path in IOEnv.TRACE) is a list of runs, each with its   *)
(* configuration, the result of the call, what the consumer observed and    *)
(* one event log PER THREAD (program order only; no cross-thread order is   *)
(* recorded or guessed).                                                    *)
(*  (1) Verdicts: the property definitions of Parallel (P_...) are          *)
(*      evaluated on the observations of every run -> MISMATCH lines.       *)
(*  (2) Conformance: one initial state per run; TLC searches for an         *)
(*      interleaving of the thread logs that Parallel's actions accept      *)
(*      (unlogged steps are taken silently). Runs for which none exists are *)
(*      listed as UNEXPLAINED: the code left the model (drift).             *)
EXTENDS Parallel, Json, IOUtils
Runs == JsonDeserialize(IOEnv.TRACE)
VARIABLES run, idx, ng   \* ng: consumer "got" events consumed so far
tvars == <<vars, run, idx, ng>>

L == Runs[run].logs
Tix(t) == CHOOSE i \in 1..Len(L) : L[i].t = t
HasT(t) == \E i \in 1..Len(L) : L[i].t = t
Has(t) == HasT(t) /\ idx[Tix(t)] < Len(L[Tix(t)].ev)
Ev(t) == L[Tix(t)].ev[idx[Tix(t)] + 1]
Is(t, p) == Has(t) /\ Ev(t).p = p
EatG(t) == idx' = [idx EXCEPT ![Tix(t)] = @ + 1] /\ UNCHANGED <<run, cfg>>
Eat(t) == EatG(t) /\ UNCHANGED ng
Quiet == UNCHANGED <<run, idx, cfg, ng>>
WName(w) == "W" \o ToString(w)
Same == UNCHANGED <<emptyCh, doneCh, consAlive, rdrAlive, ds, nds, nrd, rpc, rd, nfill, nrec, jobq, wpc, wd, cpc, ci, cur, got, result, maxAhead>>

\* ---- (1) verdicts on the observations
CfgOf(r) == Runs[r].cfg
ObsGot(r) == LET g == Runs[r].obs.got IN
             [i \in 1..Len(g) |-> IF g[i].kind = "ok" THEN [t |-> "ok", d |-> g[i].d, fill |-> g[i].fill, setout |-> g[i].out]
                                  ELSE [t |-> g[i].kind]]
ObsViol(r) ==
  LET c == CfgOf(r)  g == ObsGot(r)  res == Runs[r].result  o == Runs[r].obs
      done == res \notin {"panic", "hang"}
      conj == <<
        <<"C07", "result_paired_with_its_set", P_Paired(c, g)>>,
        <<"C07", "set_delivered_twice", P_NoDup(c, g)>>,
        <<"C07", "not_every_set_delivered_before_end", P_AllDelivered(c, g, res)>>,
        <<"C07", "single_worker_order", P_InOrder1(c, g)>>,
        \* the sets the reader produced before it failed reach a draining consumer too (C07), not only the error (C15)
        <<"C07", "sets_read_before_the_error_not_all_delivered", P_ErrDrain(c, g, res)>>,
        <<"C07", "waiting_consumer_never_served", P_Served(c, g, res)>>,
        <<"C15", "error_delivered_once", P_ErrOnce(c, g)>>,
        <<"C15", "set_read_after_error_delivered", P_ErrNoLater(c, g)>>,
        <<"C15", "draining_consumer_gets_earlier_sets_error_end", P_ErrDrain(c, g, res)>>,
        <<"C15", "init_failure_returned_as_error", P_InitFailuresSurface(c, res, o.nds)>>,
        <<"C16", "more_than_queue_len_plus_one_data_sets", P_BoundedSets(c, o.nds)>>,
        <<"C16", "reader_ahead_of_consumer", P_ReaderAhead(c, o.max_ahead)>>,
        <<"C16", "data_set_not_recycled", P_RecycledOnly(c, g)>>,
        <<"C08", "call_did_not_return", res # "hang">>,
        <<"C08", "job_still_processing_after_return", ~done \/ o.jobs_started = o.jobs_finished>>,
        <<"C08", "thread_active_after_return", ~done \/ o.late_events = 0>>
      >>
  IN {<<conj[i][1], conj[i][2]>> : i \in {i \in 1..Len(conj) : ~conj[i][3]}}
ReportObs(r) == LET v == ObsViol(r) IN
  v # {} => PrintT(<<"MISMATCH", ToJson([kind |-> "parallel", run |-> r, props |-> {x[1] : x \in v}, why |-> {x[2] : x \in v},
                                         extra |-> [cfg |-> CfgOf(r), result |-> Runs[r].result]])>>)

TInit == /\ TLCSet(1, {})
         /\ \E r \in 1..Len(Runs) :
              /\ run = r /\ ng = 0 /\ idx = [i \in 1..Len(Runs[r].logs) |-> 0]
              /\ ReportObs(r)
              /\ InitWith(CfgOf(r))

\* ---- (2) conformance: reader thread
T_RInitOk   == Is("R", "R.init") /\ ~cfg.RInitFail /\ RInit /\ Eat("R")
T_RInitFail == cfg.RInitFail /\ RInit /\ Quiet                         \* `?` returns before the hook
T_RRecvGot  == Is("R", "R.recv.got") /\ RRecv /\ rpc' = "fill" /\ Eat("R")
T_RRecvCl   == Is("R", "R.recv.closed") /\ RRecv /\ rpc' = "scope_drop" /\ Eat("R")
T_RFill     == /\ Is("R", "fill") /\ Ev("R").d = rd /\ RFill /\ Eat("R")
               /\ LET e == Ev("R") IN
                    CASE e.kind = "none" -> rpc' = "join" /\ nfill' = nfill
                      [] e.kind = "err"  -> rpc' = "senderr" /\ e.k = nfill'
                      [] e.kind = "ok"   -> rpc' = "recv" /\ e.k = nfill'
T_RExec     == Is("R", "R.exec") /\ Eat("R") /\ Same
T_RSendErr  == Is("R", "R.senderr") /\ RSendErr /\ Eat("R")
T_RJoin     == Is("R", "R.join") /\ RJoin /\ Eat("R")
T_RSendEnd  == Is("R", "R.sendend") /\ RSendEnd /\ Eat("R")
T_RSilent   == (RScopeDrop \/ RExit) /\ ~Has("R") /\ Quiet
\* ---- workers (a worker thread is identified by its own log; which job it took is what it logged)
T_WTake(w)  == WTake(w) /\ Is(WName(w), "work") /\ Ev(WName(w)).d = Head(jobq) /\ Quiet
T_WWork(w)  == /\ Is(WName(w), "work") /\ WWork(w) /\ Eat(WName(w))
               /\ LET e == Ev(WName(w)) IN e.d = wd[w] /\ e.fill = ds[wd[w]].fill /\ e.out = F(e.fill)
T_WWorked(w) == Is(WName(w), "W.work") /\ Eat(WName(w)) /\ Same
T_WSend(w)  == Is(WName(w), "W.send") /\ WSend(w) /\ Eat(WName(w))
\* ---- consumer / main thread
T_DsInit    == /\ Is("C", "dsinit") /\ Ev("C").id = nds + 1 /\ Ev("C").ok = (cfg.DInitFailAt # nds + 1)
               /\ ((cpc = "prefill" /\ ci < cfg.Q /\ CPrefill) \/ CMkCur) /\ Eat("C")
T_PrefillDone == cpc = "prefill" /\ ci = cfg.Q /\ CPrefill /\ Quiet
T_CRecvOk   == Is("C", "C.recv.ok") /\ ng = Len(got) /\ CNextRecv /\ cpc' = "recycle" /\ Eat("C")
T_CRecycle  == Is("C", "C.recycle") /\ CRecycle /\ Eat("C")
T_CGot      == /\ Is("C", "got") /\ EatG("C") /\ ng' = ng + 1
               /\ LET e == Ev("C") IN
                  \/ /\ e.kind = "ok" /\ cpc = "func" /\ ng + 1 = Len(got) /\ got[Len(got)].t = "ok"
                     /\ e.d = got[Len(got)].d /\ e.fill = got[Len(got)].fill /\ e.out = got[Len(got)].setout
                     /\ Same
                  \/ /\ e.kind = "err" /\ ng = Len(got) /\ CNextRecv /\ got'[Len(got')].t = "err"
                  \/ /\ e.kind = "end" /\ ng = Len(got) /\ CNextRecv /\ got'[Len(got')].t \in {"end", "closed"}
T_CStop     == /\ Is("C", "stop") /\ Eat("C")
               /\ \/ CStop
                  \/ cpc = "drop" /\ Same
T_CDrop     == Is("C", "C.drop") /\ cpc = "drop" /\ CDrop /\ Eat("C")
T_CJoin     == Is("C", "C.join") /\ cpc = "join" /\ rpc # "exit_err" /\ CJoin /\ Eat("C")
T_CJoinErr  == cpc = "join" /\ rpc = "exit_err" /\ ~Has("C") /\ CJoin /\ Quiet   \* `?` leaves before the hook
T_CEarly    == cpc \in {"drop_early", "scope_end"} /\ ~Has("C") /\ (CDrop \/ CJoin) /\ Quiet

TNext == \/ T_RInitOk \/ T_RInitFail \/ T_RRecvGot \/ T_RRecvCl \/ T_RFill \/ T_RExec \/ T_RSendErr
         \/ T_RJoin \/ T_RSendEnd \/ T_RSilent
         \/ \E w \in 1..MaxW : w <= cfg.NW /\ (T_WTake(w) \/ T_WWork(w) \/ T_WWorked(w) \/ T_WSend(w))
         \/ T_DsInit \/ T_PrefillDone \/ T_CRecvOk \/ T_CRecycle \/ T_CGot \/ T_CStop
         \/ T_CDrop \/ T_CJoin \/ T_CJoinErr \/ T_CEarly
TSpec == TInit /\ [][TNext]_tvars

AllEaten == \A i \in 1..Len(L) : idx[i] = Len(L[i].ev)
Accepted == AllEaten /\ Terminated /\ result = Runs[run].result
\* register 1 collects the runs for which an accepting interleaving exists (needs -workers 1)
Collect == Accepted => TLCSet(1, TLCGet(1) \cup {run})
\* runs that panicked or hung have no complete logs: they are judged by (1) only
Judged == {r \in 1..Len(Runs) : Runs[r].result \notin {"panic", "hang"}}
Post == /\ PrintT(<<"CONFORMANCE", ToJson([runs |-> Len(Runs), explained |-> Cardinality(TLCGet(1) \cap Judged),
                                          unexplained |-> Judged \ TLCGet(1)])>>)
        /\ TRUE
=============================================================================
